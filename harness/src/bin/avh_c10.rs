//! avh_c10 — schema -> JSON -> schema round trip (C10).  Executes and records; judges nothing.
//!
//!   gen --seed S --count N --depth D --out F      random schema trees (every rendering is a scenario)
//!   run --scn F --out G                           text1 -> parse -> to_string = text2 -> parse -> text3,
//!                                                  structural projections, container header
use apache_avro::schema::{Alias, DecimalSchema, EnumSchema, FixedSchema, InnerDecimalSchema, Name, RecordField, RecordSchema, UuidSchema};
use apache_avro::{Reader, Schema, Writer};
use avro_verif_harness::generate::Rng;
use avro_verif_harness::schemajson::*;
use avro_verif_harness::term::{bytes_j, small};
use avro_verif_harness::{Args, guarded, jsontree, open_out, parse_args, quiet_panics, read_lines};
use serde_json::{Value as J, json};
use std::collections::BTreeMap;
use std::io::Write as _;

// ---------------------------------------------------------------------------------------------
// structural projection of a parsed schema: the M-term of spec/SchemaJson.tla (Meaning)
// ---------------------------------------------------------------------------------------------
fn name_j(n: &Name) -> J {
    bytes_j(n.fullname(None).as_bytes())
}
fn aliases_j(a: &Option<Vec<Alias>>) -> J {
    J::Array(a.as_ref().map(|v| v.iter().map(|x| bytes_j(x.fullname(None).as_bytes())).collect()).unwrap_or_default())
}
fn opt_bytes(s: &Option<String>) -> J {
    match s {
        Some(d) => json!([bytes_j(d.as_bytes())]),
        None => json!([]),
    }
}
fn attrs_j(a: &BTreeMap<String, J>) -> J {
    J::Array(a.iter().map(|(k, v)| json!([k, jsontree::from_value(v)])).collect())
}
fn fixed_j(f: &FixedSchema) -> J {
    json!({"m":"fixed","name":name_j(&f.name),"aliases":aliases_j(&f.aliases),"doc":opt_bytes(&f.doc),
           "size": t_int(f.size as i64), "attrs": attrs_j(&f.attributes)})
}
fn field_j(f: &RecordField) -> J {
    json!({"name": bytes_j(f.name.as_bytes()), "doc": opt_bytes(&f.doc),
           "aliases": f.aliases.iter().map(|a| bytes_j(a.as_bytes())).collect::<Vec<_>>(),
           "dflt": match &f.default { Some(v) => json!([jsontree::from_value(v)]), None => json!([]) },
           "type": proj(&f.schema), "attrs": attrs_j(&f.custom_attributes)})
}
fn logical(k: &str, base: &str) -> J {
    json!({"m":"logical","k":k,"base":base})
}

pub fn proj(s: &Schema) -> J {
    match s {
        Schema::Null => json!({"m":"prim","k":"null"}),
        Schema::Boolean => json!({"m":"prim","k":"boolean"}),
        Schema::Int => json!({"m":"prim","k":"int"}),
        Schema::Long => json!({"m":"prim","k":"long"}),
        Schema::Float => json!({"m":"prim","k":"float"}),
        Schema::Double => json!({"m":"prim","k":"double"}),
        Schema::Bytes => json!({"m":"prim","k":"bytes"}),
        Schema::String => json!({"m":"prim","k":"string"}),
        Schema::Array(a) => json!({"m":"array","items":proj(&a.items),"attrs":attrs_j(&a.attributes)}),
        Schema::Map(m) => json!({"m":"map","values":proj(&m.types),"attrs":attrs_j(&m.attributes)}),
        Schema::Union(u) => json!({"m":"union","branches":u.variants().iter().map(proj).collect::<Vec<_>>()}),
        Schema::Record(RecordSchema { name, aliases, doc, fields, attributes, .. }) => json!({
            "m":"record","name":name_j(name),"aliases":aliases_j(aliases),"doc":opt_bytes(doc),
            "fields": fields.iter().map(field_j).collect::<Vec<_>>(), "attrs": attrs_j(attributes)}),
        Schema::Enum(EnumSchema { name, aliases, doc, symbols, default, attributes }) => json!({
            "m":"enum","name":name_j(name),"aliases":aliases_j(aliases),"doc":opt_bytes(doc),
            "symbols": symbols.iter().map(|x| bytes_j(x.as_bytes())).collect::<Vec<_>>(),
            "edefault": opt_bytes(default), "attrs": attrs_j(attributes)}),
        Schema::Fixed(f) => fixed_j(f),
        Schema::Decimal(DecimalSchema { precision, scale, inner }) => json!({
            "m":"decimal","precision":small(*precision),"scale":small(*scale),
            "inner": match inner { InnerDecimalSchema::Bytes => json!({"m":"prim","k":"bytes"}), InnerDecimalSchema::Fixed(f) => fixed_j(f) }}),
        Schema::BigDecimal => logical("big-decimal", "bytes"),
        Schema::Uuid(UuidSchema::String) => logical("uuid", "string"),
        Schema::Uuid(UuidSchema::Bytes) => logical("uuid", "bytes"),
        Schema::Uuid(UuidSchema::Fixed(f)) => json!({"m":"uuid-fixed","inner":fixed_j(f)}),
        Schema::Date => logical("date", "int"),
        Schema::TimeMillis => logical("time-millis", "int"),
        Schema::TimeMicros => logical("time-micros", "long"),
        Schema::TimestampMillis => logical("timestamp-millis", "long"),
        Schema::TimestampMicros => logical("timestamp-micros", "long"),
        Schema::TimestampNanos => logical("timestamp-nanos", "long"),
        Schema::LocalTimestampMillis => logical("local-timestamp-millis", "long"),
        Schema::LocalTimestampMicros => logical("local-timestamp-micros", "long"),
        Schema::LocalTimestampNanos => logical("local-timestamp-nanos", "long"),
        Schema::Duration(f) => json!({"m":"duration","inner":fixed_j(f)}),
        Schema::Ref { name } => json!({"m":"ref","name":name_j(name)}),
    }
}

fn none_m() -> J {
    json!({"m":"none"})
}

// ---------------------------------------------------------------------------------------------
// the avro.schema entry of an object container file header (instrument: 30 lines of format reading)
// ---------------------------------------------------------------------------------------------
fn read_long(b: &[u8], pos: &mut usize) -> Option<i64> {
    let mut acc: u64 = 0;
    let mut shift = 0;
    loop {
        let x = *b.get(*pos)?;
        *pos += 1;
        acc |= ((x & 0x7f) as u64) << shift;
        if x & 0x80 == 0 {
            break;
        }
        shift += 7;
        if shift > 63 {
            return None;
        }
    }
    Some(((acc >> 1) as i64) ^ -((acc & 1) as i64))
}

fn header_schema_json(file: &[u8]) -> Option<String> {
    if file.len() < 4 || &file[..4] != b"Obj\x01" {
        return None;
    }
    let mut pos = 4;
    loop {
        let mut n = read_long(file, &mut pos)?;
        if n == 0 {
            return None;
        }
        if n < 0 {
            n = -n;
            read_long(file, &mut pos)?;
        }
        for _ in 0..n {
            let kl = read_long(file, &mut pos)? as usize;
            let k = file.get(pos..pos + kl)?.to_vec();
            pos += kl;
            let vl = read_long(file, &mut pos)? as usize;
            let v = file.get(pos..pos + vl)?.to_vec();
            pos += vl;
            if k == b"avro.schema" {
                return String::from_utf8(v).ok();
            }
        }
    }
}

fn tree_or_null(text: &str) -> (bool, J) {
    match jsontree::scan(text) {
        Ok(t) => (true, t),
        Err(_) => (false, t_null()),
    }
}

fn measure(tree: &J, style: u8) -> J {
    let text1 = tree_text(tree, style);
    let mut ev = json!({
        "text1": text1, "parse_ok": false, "parse_err": "", "panic": false, "panic_msg": "",
        "ser_ok": false, "text2": "", "scan2_ok": false, "tree2": t_null(), "proj1": none_m(),
        "parse2_ok": false, "parse2_err": "", "proj2": none_m(), "text3_same": false, "text3": "",
        "value_same": false,
        "hdr_ok": false, "hdr_err": "", "hdr_scan_ok": false, "hdr_tree": t_null(), "hdr_text_same": false, "proj_hdr": none_m()
    });
    let s1 = match guarded(|| Schema::parse_str(&text1)) {
        Ok(Ok(s)) => s,
        Ok(Err(e)) => {
            ev["parse_err"] = J::from(e.to_string());
            return ev;
        }
        Err(p) => {
            ev["parse_err"] = J::from(format!("panic: {p}"));
            return ev;
        }
    };
    ev["parse_ok"] = J::from(true);
    let r = guarded(std::panic::AssertUnwindSafe(|| {
        let p1 = proj(&s1);
        let text2 = serde_json::to_string(&s1).map_err(|e| e.to_string())?;
        Ok::<_, String>((p1, text2))
    }));
    let (p1, text2) = match r {
        Ok(Ok(x)) => x,
        Ok(Err(e)) => {
            ev["parse2_err"] = J::from(e);
            return ev;
        }
        Err(p) => {
            ev["panic"] = J::from(true);
            ev["panic_msg"] = J::from(p);
            return ev;
        }
    };
    ev["proj1"] = p1;
    ev["ser_ok"] = J::from(true);
    let (ok2, tree2) = tree_or_null(&text2);
    ev["scan2_ok"] = J::from(ok2);
    ev["tree2"] = tree2;
    ev["text2"] = J::from(text2.clone());
    // does serde_json::to_value (what canonical_form and most users see) agree with the text?
    if let (Ok(v), Ok(tv)) = (serde_json::to_value(&s1), serde_json::from_str::<J>(&text2)) {
        ev["value_same"] = J::from(v == tv);
    }
    match guarded(|| Schema::parse_str(&text2)) {
        Ok(Ok(s2)) => {
            ev["parse2_ok"] = J::from(true);
            match guarded(std::panic::AssertUnwindSafe(|| (proj(&s2), serde_json::to_string(&s2).unwrap_or_else(|e| format!("error: {e}"))))) {
                Ok((p2, text3)) => {
                    ev["proj2"] = p2;
                    ev["text3_same"] = J::from(text3 == text2);
                    if text3 != text2 {
                        ev["text3"] = J::from(text3);
                    }
                }
                Err(p) => {
                    ev["panic"] = J::from(true);
                    ev["panic_msg"] = J::from(p);
                }
            }
        }
        Ok(Err(e)) => ev["parse2_err"] = J::from(e.to_string()),
        Err(p) => ev["parse2_err"] = J::from(format!("panic: {p}")),
    }
    // the same through an object container file header
    let hdr = guarded(std::panic::AssertUnwindSafe(|| -> Result<(Vec<u8>, J), String> {
        let w = Writer::new(&s1, Vec::new()).map_err(|e| e.to_string())?;
        let file = w.into_inner().map_err(|e| e.to_string())?;
        let rd = Reader::new(&file[..]).map_err(|e| e.to_string())?;
        let p = proj(rd.writer_schema());
        Ok((file, p))
    }));
    match hdr {
        Ok(Ok((file, p))) => {
            ev["hdr_ok"] = J::from(true);
            ev["proj_hdr"] = p;
            if let Some(js) = header_schema_json(&file) {
                let (ok, t) = tree_or_null(&js);
                ev["hdr_scan_ok"] = J::from(ok);
                ev["hdr_tree"] = t;
                ev["hdr_text_same"] = J::from(js == text2);
            }
        }
        Ok(Err(e)) => ev["hdr_err"] = J::from(e),
        Err(p) => {
            ev["panic"] = J::from(true);
            ev["panic_msg"] = J::from(format!("header: {p}"));
        }
    }
    ev
}

fn cmd_gen(a: &Args) -> i32 {
    let seed = a.u64("seed", 1);
    let count = a.usize("count", 100);
    let depth = a.usize("depth", 3);
    let mut out = open_out(a.req("out"));
    let mut rng = Rng::new(seed ^ 0xC10);
    for i in 0..count {
        // `risky` off: the attribute names order/precision/scale as *custom* attributes are C12's business
        let fam = random_family(&mut rng, 1 + i % depth.max(1), 3, i % 5 == 0);
        for t in fam.iter().skip(1) {
            writeln!(out, "{}", json!({"t": t, "edits": ["Render"]})).unwrap();
        }
    }
    0
}

fn cmd_run(a: &Args) -> i32 {
    let lines = read_lines(a.req("scn"));
    let mut out = open_out(a.req("out"));
    for (idx, l) in lines.iter().enumerate() {
        let scn: J = serde_json::from_str(l).unwrap_or_else(|e| {
            eprintln!("bad scenario line {idx}: {e}");
            std::process::exit(2)
        });
        let t = normalise(&scn["t"]);
        let style = (idx % 4) as u8;
        let mut ev = measure(&t, style);
        ev["ev"] = J::from("srt");
        ev["id"] = small(idx);
        ev["style"] = small(style as usize);
        ev["t"] = t;
        writeln!(out, "{ev}").unwrap();
    }
    out.flush().unwrap();
    0
}

fn main() {
    quiet_panics();
    let args = parse_args();
    let rc = match args.cmd.as_str() {
        "gen" => cmd_gen(&args),
        "run" => cmd_run(&args),
        other => {
            eprintln!("unknown command {other:?}");
            2
        }
    };
    std::process::exit(rc);
}
