//! avh_c04 — container file layout in both directions (C04).
//!
//! `prep  --scn FILE --out FILE`   group (schema, value) scenarios by schema, render the schema text
//! `write --prep FILE --out FILE`  real Writer (all codecs, several block sizes) -> "written" events
//! `read  --files FILE --out FILE` files made by the independent implementation -> "fed" events

use apache_avro::types::Value;
use apache_avro::{Codec, Reader, Schema, Writer};
use avro_verif_harness::container::split_file;
use avro_verif_harness::term::*;
use avro_verif_harness::{Args, guarded, open_out, parse_args, quiet_panics, read_lines};
use serde_json::{Value as J, json};
use std::io::Write as _;

fn codec_of(i: usize) -> (Codec, &'static str) {
    match i % 6 {
        0 => (Codec::Null, "null"),
        1 => (Codec::Deflate(Default::default()), "deflate"),
        2 => (Codec::Snappy, "snappy"),
        3 => (Codec::Bzip2(Default::default()), "bzip2"),
        4 => (Codec::Xz(Default::default()), "xz"),
        _ => (Codec::Zstandard(Default::default()), "zstandard"),
    }
}

fn cmd_prep(a: &Args) -> i32 {
    let lines = read_lines(a.req("scn"));
    let mut out = open_out(a.req("out"));
    let mut groups: Vec<(J, Vec<J>)> = vec![];
    for l in &lines {
        let j: J = serde_json::from_str(l).expect("scenario json");
        match groups.last_mut() {
            Some((s, vs)) if *s == j["s"] && vs.len() < 4 => vs.push(j["v"].clone()),
            _ => groups.push((j["s"].clone(), vec![j["v"].clone()])),
        }
    }
    for (i, (s, vs)) in groups.iter().enumerate() {
        let text = render_schema_text(s, (i % 3) as u8);
        if !matches!(guarded(|| Schema::parse_str(&text)), Ok(Ok(_))) {
            continue;
        }
        // a zero-value file for every fifth schema
        let vals: Vec<J> = if i % 5 == 4 { vec![] } else { vs.clone() };
        writeln!(out, "{}", json!({"s": s, "vals": vals, "schema_bytes": bytes_j(text.as_bytes()), "text": text})).unwrap();
    }
    0
}

fn cmd_write(a: &Args) -> i32 {
    let lines = read_lines(a.req("prep"));
    let mut out = open_out(a.req("out"));
    let mut id = a.usize("first-id", 0);
    for (i, l) in lines.iter().enumerate() {
        let p: J = serde_json::from_str(l).expect("prep json");
        let text = p["text"].as_str().unwrap();
        let schema = Schema::parse_str(text).unwrap();
        let vals: Vec<Value> = p["vals"].as_array().unwrap().iter().map(vterm_to_value).collect();
        for c in 0..6 {
            if (i + c) % 2 == 1 && c != 0 { continue; } // null codec always, the others alternate
            let (codec, cname) = codec_of(c);
            let bs = [1usize, 16000, 3, 40][(i + c) % 4];
            let r = guarded(std::panic::AssertUnwindSafe(|| {
                let mut w = Writer::builder().schema(&schema).writer(Vec::new()).codec(codec).block_size(bs).build().map_err(|e| e.to_string())?;
                if i % 3 == 0 { w.add_user_metadata("user.k".into(), [0u8, 255, 128]).map_err(|e| e.to_string())?; }
                for v in &vals { w.append_value_ref(v).map_err(|e| e.to_string())?; }
                w.into_inner().map_err(|e| e.to_string())
            }));
            let Ok(Ok(file)) = r else { continue };
            // the header must embed exactly the JSON form of the writer schema (what that JSON *means* is
            // property C10's business: schema -> JSON -> schema)
            let json_form = serde_json::to_string(&schema).unwrap_or_default();
            let rt = match split_file(&file, &schema, codec) {
                Ok(sp) => sp.meta.iter().find(|(k, _)| k == b"avro.schema").map(|(_, v)| v == json_form.as_bytes()).unwrap_or(false),
                Err(_) => false,
            };
            writeln!(out, "{}", json!({"ev":"written","id":small(id),"s":p["s"],"vals":p["vals"],"codec":cname,"block_size":small(bs),
                                        "bytes":bytes_j(&file),"schema_roundtrip_ok":rt,"plains":[],"ref_ok":true})).unwrap();
            id += 1;
        }
    }
    0
}

/// A reader that is legal by the `std::io::Read` contract but awkward: every call is first answered with
/// `ErrorKind::Interrupted`, and a read never returns more than 7 bytes.
struct Awkward<'a> { data: &'a [u8], pos: usize, interrupt_next: bool }
impl std::io::Read for Awkward<'_> {
    fn read(&mut self, buf: &mut [u8]) -> std::io::Result<usize> {
        if self.interrupt_next {
            self.interrupt_next = false;
            return Err(std::io::Error::new(std::io::ErrorKind::Interrupted, "harness: interrupted"));
        }
        self.interrupt_next = true;
        let n = buf.len().min(7).min(self.data.len() - self.pos);
        buf[..n].copy_from_slice(&self.data[self.pos..self.pos + n]);
        self.pos += n;
        Ok(n)
    }
}

fn cmd_read(a: &Args) -> i32 {
    let lines = read_lines(a.req("files"));
    let mut out = open_out(a.req("out"));
    let mut id = a.usize("first-id", 0);
    for l in &lines {
        let f: J = serde_json::from_str(l).expect("file json");
        let bytes = j_bytes(&f["bytes"]);
        let text = f["text"].as_str().unwrap().to_string();
        let r = guarded(std::panic::AssertUnwindSafe(|| {
            let expect = Schema::parse_str(&text).map_err(|e| e.to_string())?;
            // every second file through the awkward reader (interrupted before every read, at most 7 bytes per read)
            let src: Box<dyn std::io::Read> = if id % 2 == 1 { Box::new(Awkward { data: &bytes[..], pos: 0, interrupt_next: true }) } else { Box::new(&bytes[..]) };
            let rd = match Reader::new(src) {
                Ok(r) => r,
                Err(e) => return Ok::<J, String>(json!({"open_ok":false,"read_err":true,"items":[],"schema_ok":false,"got_user":[],"err":e.to_string()})),
            };
            let schema_ok = *rd.writer_schema() == expect;
            let mut got_user: Vec<(String, Vec<u8>)> = rd.user_metadata().iter().map(|(k, v)| (k.clone(), v.clone())).collect();
            got_user.sort();
            let mut items = vec![];
            let mut read_err = false;
            for it in rd {
                match it { Ok(v) => items.push(value_to_vterm(&v)), Err(_) => read_err = true }
            }
            Ok(json!({"open_ok":true,"read_err":read_err,"items":items,"schema_ok":schema_ok,
                      "got_user": got_user.iter().map(|(k, v)| json!([bytes_j(k.as_bytes()), bytes_j(v)])).collect::<Vec<_>>(), "err":""}))
        }));
        let mut ev = match r {
            Ok(Ok(j)) => { let mut j = j; j["panic"] = J::from(false); j }
            Ok(Err(e)) => json!({"open_ok":false,"read_err":true,"items":[],"schema_ok":false,"got_user":[],"err":e,"panic":false}),
            Err(p) => json!({"open_ok":false,"read_err":true,"items":[],"schema_ok":false,"got_user":[],"err":p,"panic":true}),
        };
        ev["ev"] = J::from("fed");
        ev["id"] = small(id);
        for k in ["s", "vals", "user", "codec", "meta", "part", "bytes"] {
            ev[k] = f[k].clone();
        }
        writeln!(out, "{ev}").unwrap();
        id += 1;
    }
    0
}

fn main() {
    quiet_panics();
    let args = parse_args();
    let rc = match args.cmd.as_str() {
        "prep" => cmd_prep(&args),
        "write" => cmd_write(&args),
        "read" => cmd_read(&args),
        other => { eprintln!("unknown command {other:?}"); 2 }
    };
    std::process::exit(rc);
}
