//! avh_c14 — reading truncated / marker-corrupted container files (C14).
//!
//! `run --out FILE [--tier quick|thorough] [--seed S]`
//! Real files from the real Writer (several blocks, all codecs, block counts needing one and two
//! varint bytes, zero-width / one-byte / variable-width items); every byte offset as cut point;
//! every byte of every sync-marker occurrence and of the magic altered with three masks.

use apache_avro::types::Value;
use apache_avro::{Codec, Reader, Schema, Writer};
use avro_verif_harness::container::split_file;
use avro_verif_harness::term::{bytes_j, small};
use avro_verif_harness::{Args, guarded, open_out, parse_args, quiet_panics};
use serde_json::{Value as J, json};
use std::io::Write as _;

fn codec_of(i: usize) -> (Codec, &'static str) {
    match i % 6 {
        0 => (Codec::Null, "null"),
        1 => (Codec::Deflate(Default::default()), "deflate"),
        2 => (Codec::Snappy, "snappy"),
        3 => (Codec::Bzip2(Default::default()), "bzip2"),
        4 => (Codec::Xz(Default::default()), "xz"),
        _ => (Codec::Zstandard(Default::default()), "zstandard"),
    }
}

fn item(kind: &str, i: usize) -> Value {
    match kind {
        "null" => Value::Null,
        "long" => Value::Long((i % 50) as i64),
        _ => Value::String("v".repeat(i % 7)),
    }
}

/// read a (possibly damaged) copy; compare delivered values with the intact read
fn read_copy(copy: &[u8], intact: &[Value]) -> J {
    let r = guarded(std::panic::AssertUnwindSafe(|| {
        let rd = match Reader::new(copy) {
            Ok(r) => r,
            Err(_) => return json!({"open_ok": false, "n_ok": 0, "mismatch_at": 0, "n_err": 0, "after_err": 0, "d_ok": 0, "d_err": 0, "d_after": 0}),
        };
        let (mut n_ok, mut n_err, mut after_err, mut mismatch_at) = (0usize, 0usize, 0usize, 0usize);
        for it in rd {
            match it {
                Ok(v) => {
                    if n_err > 0 { after_err += 1; }
                    if mismatch_at == 0 && intact.get(n_ok) != Some(&v) { mismatch_at = n_ok + 1; }
                    n_ok += 1;
                }
                Err(_) => { n_err += 1; }
            }
            if n_ok + n_err > 100_000 { break; }
        }
        // the same copy through the schema-aware deserializing iterator (a separate code path in reader/block.rs)
        let (mut d_ok, mut d_err, mut d_after) = (0usize, 0usize, 0usize);
        if let Ok(rd2) = Reader::new(copy) {
            for it in rd2.into_deser_iter::<avro_verif_harness::dynde::Dyn>() {
                match it {
                    Ok(_) => { if d_err > 0 { d_after += 1; } d_ok += 1; }
                    Err(_) => { d_err += 1; }
                }
                if d_ok + d_err > 100_000 { break; }
            }
        }
        json!({"open_ok": true, "n_ok": small(n_ok), "mismatch_at": small(mismatch_at), "n_err": small(n_err), "after_err": small(after_err),
               "d_ok": small(d_ok), "d_err": small(d_err), "d_after": small(d_after)})
    }));
    match r {
        Ok(mut j) => { j["panic"] = J::from(false); j }
        Err(_) => json!({"open_ok": false, "n_ok": 0, "mismatch_at": 0, "n_err": 0, "after_err": 0, "d_ok": 0, "d_err": 0, "d_after": 0, "panic": true}),
    }
}

type Dyn = avro_verif_harness::dynde::Dyn;

/// One session with a (damaged) copy: polls of the value iterator, the conversion `into_deser_iter` before
/// poll number `switch_at` (None: never), polls of the deserializing iterator; polling goes on after an
/// error / the end (`extra` more polls).  Every call and its result is recorded; nothing is judged here.
fn session(copy: &[u8], intact: &[Value], intact_d: &[Dyn], switch_at: Option<usize>, extra: usize) -> J {
    let r = guarded(std::panic::AssertUnwindSafe(|| {
        let mut calls: Vec<J> = Vec::new();
        let rd = match Reader::new(copy) {
            Ok(r) => r,
            Err(_) => return json!({"open_ok": false, "calls": []}),
        };
        let mut delivered = 0usize;
        let mut quiet = 0usize; // polls after the first err / end
        let mut n = 0usize;
        let mut rd = Some(rd);
        let mut de: Option<apache_avro::reader::ReaderDeser<'_, &[u8], Dyn>> = None;
        loop {
            if switch_at == Some(n) && de.is_none() {
                de = Some(rd.take().unwrap().into_deser_iter::<Dyn>());
                calls.push(json!({"m": "s", "r": "switch", "ord": 0, "match": true}));
            }
            let (m, res): (&str, Option<Result<bool, ()>>) = if let Some(d) = de.as_mut() {
                ("d", d.next().map(|x| x.map(|v| intact_d.get(delivered) == Some(&v)).map_err(|_| ())))
            } else {
                ("v", rd.as_mut().unwrap().next().map(|x| x.map(|v| intact.get(delivered) == Some(&v)).map_err(|_| ())))
            };
            match res {
                Some(Ok(same)) => {
                    delivered += 1;
                    calls.push(json!({"m": m, "r": "item", "ord": small(delivered), "match": same}));
                    if quiet > 0 { quiet += 1; }
                }
                Some(Err(())) => { calls.push(json!({"m": m, "r": "err", "ord": 0, "match": true})); quiet += 1; }
                None => { calls.push(json!({"m": m, "r": "end", "ord": 0, "match": true})); quiet += 1; }
            }
            n += 1;
            // a conversion scheduled for later must still take place
            let pending = matches!(switch_at, Some(k) if k >= n) && de.is_none();
            if (quiet > extra && !pending) || n > 400 { break; }
        }
        json!({"open_ok": true, "calls": calls})
    }));
    match r {
        Ok(mut j) => { j["panic"] = J::from(false); j }
        Err(_) => json!({"open_ok": false, "calls": [], "panic": true}),
    }
}

fn cmd_run(a: &Args) -> i32 {
    let mut out = open_out(a.req("out"));
    let thorough = a.get("tier") == Some("thorough");
    let seed = a.u64("seed", 1) as usize;
    let mut id = 0usize;
    let mut fid = 0usize;
    let kinds = [("null", r#""null""#), ("long", r#""long""#), ("string", r#""string""#)];
    for (ki, (kind, st)) in kinds.iter().enumerate() {
        let schema = Schema::parse_str(st).unwrap();
        for ci in 0..6 {
            for (si, per_block) in [3usize, 100].iter().enumerate() {
                let combo = ki * 12 + ci * 2 + si;
                // quick: a third of the combinations, rotating with the seed
                if !thorough && (combo + seed) % 3 != 0 { continue; }
                let (codec, cname) = codec_of(ci);
                let nblocks = if *per_block == 100 { 2 } else { 2 + (combo % 3) };
                let mut w = Writer::builder().schema(&schema).writer(Vec::new()).codec(codec).marker([0xA5; 16])
                    .block_size(1 << 20).build().unwrap();
                let mut n = 0;
                for _ in 0..nblocks {
                    for _ in 0..*per_block { w.append_value(item(kind, n)).unwrap(); n += 1; }
                    w.flush().unwrap();
                }
                let written = w.into_inner().unwrap();
                // the small files a second time with a block that holds NO objects spliced in behind the first block
                // (count 0, the codec's encoding of the empty payload, the marker): legal, never written by this Writer
                let mut file_variants: Vec<Vec<u8>> = vec![written.clone()];
                if *per_block == 3 {
                    if let Ok(sp0) = split_file(&written, &schema, codec) {
                        if sp0.boundaries.len() >= 2 {
                            let at = sp0.boundaries[1];
                            let mut payload: Vec<u8> = Vec::new();
                            if codec.compress(&mut payload).is_ok() {
                                let mut blk = vec![0u8];
                                let mut z = (payload.len() as u64) << 1;
                                loop { if z <= 0x7f { blk.push(z as u8); break; } blk.push(0x80 | (z & 0x7f) as u8); z >>= 7; }
                                blk.extend_from_slice(&payload);
                                blk.extend_from_slice(&[0xA5; 16]);
                                let mut f2 = written[..at].to_vec();
                                f2.extend_from_slice(&blk);
                                f2.extend_from_slice(&written[at..]);
                                file_variants.push(f2);
                            }
                        }
                    }
                }
                for (vi, file) in file_variants.into_iter().enumerate() {
                let nblocks = nblocks + vi;
                let intact: Vec<Value> = match Reader::new(&file[..]) { Ok(r) => r.filter_map(|x| x.ok()).collect(), Err(_) => continue };
                if intact.len() != n { eprintln!("intact read of a file variant gives {} of {} values", intact.len(), n); }
                let sp = split_file(&file, &schema, codec).unwrap();
                writeln!(out, "{}", json!({"ev":"file","id":small(id),"fid":small(fid),"bytes":bytes_j(&file),"intact_n":small(intact.len()),
                                            "codec":cname,"kind":kind,"per_block":small(*per_block),"nblocks":small(nblocks)})).unwrap();
                id += 1;
                // every cut
                for k in 0..=file.len() {
                    let mut ev = read_copy(&file[..k], &intact);
                    ev["ev"] = J::from("damage"); ev["id"] = small(id); ev["fid"] = small(fid);
                    ev["kind"] = J::from("cut"); ev["k"] = small(k); ev["mask"] = J::from(0);
                    writeln!(out, "{ev}").unwrap();
                    id += 1;
                }
                // every byte of every marker occurrence (ends at each boundary), three masks
                for b in &sp.boundaries {
                    for off in (b - 16)..*b {
                        for mask in [0x01u8, 0x80, 0xFF] {
                            let mut copy = file.clone();
                            copy[off] ^= mask;
                            let mut ev = read_copy(&copy, &intact);
                            ev["ev"] = J::from("damage"); ev["id"] = small(id); ev["fid"] = small(fid);
                            ev["kind"] = J::from("marker"); ev["k"] = small(off + 1); ev["mask"] = J::from(mask);
                            writeln!(out, "{ev}").unwrap();
                            id += 1;
                        }
                    }
                }
                for off in 0..4 {
                    for mask in [0x01u8, 0x80, 0xFF] {
                        let mut copy = file.clone();
                        copy[off] ^= mask;
                        let mut ev = read_copy(&copy, &intact);
                        ev["ev"] = J::from("damage"); ev["id"] = small(id); ev["fid"] = small(fid);
                        ev["kind"] = J::from("magic"); ev["k"] = small(off + 1); ev["mask"] = J::from(mask);
                        writeln!(out, "{ev}").unwrap();
                        id += 1;
                    }
                }
                // sessions (call sequences) on the small files: every damage x every position of the conversion
                if *per_block == 3 {
                    let intact_d: Vec<Dyn> = Reader::new(&file[..]).unwrap().into_deser_iter::<Dyn>().map(|x| x.unwrap()).collect();
                    let mut damages: Vec<(&str, usize, u8, Vec<u8>)> = Vec::new();
                    for k in 0..=file.len() { damages.push(("cut", k, 0, file[..k].to_vec())); }
                    for b in &sp.boundaries {
                        for off in [b - 16, b - 9, b - 1] {
                            let mut copy = file.clone();
                            copy[off] ^= 0x80;
                            damages.push(("marker", off + 1, 0x80, copy));
                        }
                    }
                    { let mut copy = file.clone(); copy[3] ^= 0x01; damages.push(("magic", 4, 0x01, copy)); }
                    for (kind, k, mask, copy) in &damages {
                        // the plain session tells how many polls it takes to the first err / end
                        let plain = session(copy, &intact, &intact_d, None, 2);
                        let q = plain["calls"].as_array().map(|c| c.len()).unwrap_or(0);
                        let mut variants: Vec<Option<usize>> = vec![None];
                        if plain["open_ok"] == J::from(true) {
                            // all positions up to and just after quiescence; thorough: all, quick: rotating subset
                            for p in 0..=q { if thorough || (p + k + seed) % 3 == 0 || p + 3 >= q { variants.push(Some(p)); } }
                        }
                        for sw in variants {
                            let mut ev = if sw.is_none() { plain.clone() } else { session(copy, &intact, &intact_d, sw, 2) };
                            ev["ev"] = J::from("session"); ev["id"] = small(id); ev["fid"] = small(fid);
                            ev["kind"] = J::from(*kind); ev["k"] = small(*k); ev["mask"] = J::from(*mask);
                            ev["switch_at"] = match sw { Some(p) => small(p), None => J::from(-1) };
                            writeln!(out, "{ev}").unwrap();
                            id += 1;
                        }
                    }
                }
                fid += 1;
                }
            }
        }
    }
    out.flush().unwrap();
    0
}

/// `replay --in FILE --out FILE`: FILE holds {"file": the recorded "file" event, "event": the recorded damage /
/// session event}; the same damaged copy is read again on the current tree and recorded in the same format.
fn cmd_replay(a: &Args) -> i32 {
    let text = std::fs::read_to_string(a.req("in")).expect("replay input");
    let j: J = serde_json::from_str(&text).expect("replay json");
    let (f, e) = (&j["file"], &j["event"]);
    let file: Vec<u8> = f["bytes"].as_array().expect("file bytes").iter().map(|x| x.as_u64().unwrap() as u8).collect();
    let intact: Vec<Value> = match Reader::new(&file[..]) { Ok(r) => r.filter_map(|x| x.ok()).collect(), Err(_) => vec![] };
    let intact_d: Vec<Dyn> = match Reader::new(&file[..]) { Ok(r) => r.into_deser_iter::<Dyn>().filter_map(|x| x.ok()).collect(), Err(_) => vec![] };
    let mut out = open_out(a.req("out"));
    let mut fe = f.clone();
    fe["id"] = small(0);
    fe["intact_n"] = small(intact.len());
    writeln!(out, "{fe}").unwrap();
    let kind = e["kind"].as_str().unwrap_or("cut");
    let k = e["k"].as_u64().unwrap_or(0) as usize;
    let mask = e["mask"].as_u64().unwrap_or(0) as u8;
    let copy: Vec<u8> = match kind {
        "cut" => file[..k.min(file.len())].to_vec(),
        _ => { let mut c = file.clone(); if k >= 1 && k <= c.len() { c[k - 1] ^= mask; } c }
    };
    let mut ev = if e["ev"] == "session" {
        let sw = e["switch_at"].as_i64().unwrap_or(-1);
        let mut ev = session(&copy, &intact, &intact_d, if sw < 0 { None } else { Some(sw as usize) }, 2);
        ev["switch_at"] = J::from(sw);
        ev
    } else {
        read_copy(&copy, &intact)
    };
    ev["ev"] = e["ev"].clone(); ev["id"] = small(1); ev["fid"] = small(0);
    ev["kind"] = J::from(kind); ev["k"] = small(k); ev["mask"] = J::from(mask);
    writeln!(out, "{ev}").unwrap();
    out.flush().unwrap();
    0
}

fn main() {
    quiet_panics();
    let args = parse_args();
    let rc = match args.cmd.as_str() {
        "run" => cmd_run(&args),
        "replay" => cmd_replay(&args),
        other => { eprintln!("unknown command {other:?}"); 2 }
    };
    std::process::exit(rc);
}
