//! avh_c05 — decoding untrusted bytes (C05, C06).
//!
//! `run --in cases.ndjson --out events.ndjson --limit N [--from K]`
//!   Sets the process-wide allocation limit first, then executes each case under catch_unwind with
//!   a counting global allocator and a watchdog.  Before each case a `{"begin": id}` line is
//!   written and flushed, so that the parent can attribute an abort / time-out (the process dies)
//!   to the case that was running.
//! `mutate --scn FILE --out FILE --seed S --per N`
//!   Derives damaged inputs (truncations, bit flips, huge lengths, ...) from valid encodings of
//!   (schema, value) scenarios; the *judgement* of every derived input is TLA+'s (Trace_Decode).

use apache_avro::Schema;
use apache_avro::reader::datum::GenericDatumReader;
use apache_avro::types::Value;
use apache_avro::writer::datum::GenericDatumWriter;
use apache_avro::{Codec, GenericSingleObjectReader, Reader};
use avro_verif_harness::dynde::{Dyn, DynSkip};
use avro_verif_harness::generate::Rng;
use avro_verif_harness::term::*;
use avro_verif_harness::{Args, guarded, open_out, parse_args, quiet_panics, read_lines};
use serde_json::{Value as J, json};
use std::alloc::{GlobalAlloc, Layout, System};
use std::io::Write;
use std::sync::atomic::{AtomicU64, AtomicUsize, Ordering};

// ---------------------------------------------------------------------------------------------
// counting allocator (instrument)
// ---------------------------------------------------------------------------------------------
struct Counting;
static LARGEST: AtomicUsize = AtomicUsize::new(0);
static LIVE: AtomicUsize = AtomicUsize::new(0);
static PEAK: AtomicUsize = AtomicUsize::new(0);
const REFUSE_ABOVE: usize = 3 << 30; // 3 GiB: a request this large is refused (=> abort, observed by the parent)

fn note(size: usize) {
    LARGEST.fetch_max(size, Ordering::Relaxed);
    let live = LIVE.fetch_add(size, Ordering::Relaxed) + size;
    PEAK.fetch_max(live, Ordering::Relaxed);
}

unsafe impl GlobalAlloc for Counting {
    unsafe fn alloc(&self, l: Layout) -> *mut u8 {
        if l.size() > REFUSE_ABOVE {
            return std::ptr::null_mut();
        }
        note(l.size());
        unsafe { System.alloc(l) }
    }
    unsafe fn alloc_zeroed(&self, l: Layout) -> *mut u8 {
        if l.size() > REFUSE_ABOVE {
            return std::ptr::null_mut();
        }
        note(l.size());
        unsafe { System.alloc_zeroed(l) }
    }
    unsafe fn dealloc(&self, p: *mut u8, l: Layout) {
        LIVE.fetch_sub(l.size(), Ordering::Relaxed);
        unsafe { System.dealloc(p, l) }
    }
    unsafe fn realloc(&self, p: *mut u8, l: Layout, new: usize) -> *mut u8 {
        if new > REFUSE_ABOVE {
            return std::ptr::null_mut();
        }
        if new > l.size() {
            note(new - l.size());
            LARGEST.fetch_max(new, Ordering::Relaxed);
        } else {
            LIVE.fetch_sub(l.size() - new, Ordering::Relaxed);
        }
        unsafe { System.realloc(p, l, new) }
    }
}

#[global_allocator]
static GLOBAL: Counting = Counting;

static MEASURED: AtomicUsize = AtomicUsize::new(0);
fn reset_counters() {
    LARGEST.store(0, Ordering::Relaxed);
    MEASURED.store(0, Ordering::Relaxed);
    PEAK.store(LIVE.load(Ordering::Relaxed), Ordering::Relaxed);
}
/// start of a measured region (a call into the code under test)
fn m_begin() {
    LARGEST.store(0, Ordering::Relaxed);
}
/// end of a measured region: remember the largest single request made inside it
fn m_end() {
    MEASURED.fetch_max(LARGEST.load(Ordering::Relaxed), Ordering::Relaxed);
}
fn cap31(n: usize) -> J {
    J::from(n.min((1usize << 31) - 1) as u64)
}

// ---------------------------------------------------------------------------------------------
// watchdog (instrument): a case that does not return within 10 s kills the process with code 3
// ---------------------------------------------------------------------------------------------
static CASE_STARTED_MS: AtomicU64 = AtomicU64::new(0);
fn now_ms() -> u64 {
    std::time::SystemTime::now().duration_since(std::time::UNIX_EPOCH).unwrap().as_millis() as u64
}
fn start_watchdog(limit_ms: u64) {
    std::thread::spawn(move || {
        loop {
            std::thread::sleep(std::time::Duration::from_millis(100));
            let st = CASE_STARTED_MS.load(Ordering::Relaxed);
            if st != 0 && now_ms() - st > limit_ms {
                std::process::exit(3);
            }
        }
    });
}

// ---------------------------------------------------------------------------------------------

fn no_val() -> J {
    json!({"ok":false,"panic":false,"v":none_term(),"consumed":0,"err":"","ekind":"","ig":[]})
}

/// kind of a reported error, projected from its text: "alloc" = the configured allocation limit was
/// applied (`Details::MemoryAllocation`), "other" = anything else, "" = no error
fn ekind(e: &str) -> &'static str {
    if e.is_empty() { "" } else if e.contains("Unable to allocate") { "alloc" } else { "other" }
}

/// generic decoder on bytes ∘ sentinel; plus validate / re-encode / re-decode of an Ok result
fn run_datum(schema: &Schema, bytes: &[u8]) -> J {
    let all = bytes.to_vec();
    let r = guarded(std::panic::AssertUnwindSafe(|| {
        let r = GenericDatumReader::builder(schema).build().map_err(|e| e.to_string())?;
        let mut slice: &[u8] = &all;
        m_begin();
        let v = r.read_value(&mut slice);
        m_end();
        let v = v.map_err(|e| e.to_string())?;
        Ok::<(Value, usize), String>((v, all.len() - slice.len()))
    }));
    m_end();
    match r {
        Ok(Ok((v, c))) => {
            let valid = guarded(std::panic::AssertUnwindSafe(|| v.validate(schema)));
            let reenc = guarded(std::panic::AssertUnwindSafe(|| {
                let w = GenericDatumWriter::builder(schema).build().map_err(|e| e.to_string())?;
                let mut buf = Vec::new();
                w.write_value_ref(&mut buf, &v).map_err(|e| e.to_string())?;
                Ok::<Vec<u8>, String>(buf)
            }));
            let (re_ok, re_wire, re_panic) = match &reenc {
                Ok(Ok(b)) => (true, b.clone(), false),
                Ok(Err(_)) => (false, vec![], false),
                Err(_) => (false, vec![], true),
            };
            let redec = if re_ok {
                guarded(std::panic::AssertUnwindSafe(|| {
                    let r = GenericDatumReader::builder(schema).build().map_err(|e| e.to_string())?;
                    let mut slice: &[u8] = &re_wire;
                    let v2 = r.read_value(&mut slice).map_err(|e| e.to_string())?;
                    Ok::<(Value, usize), String>((v2, re_wire.len() - slice.len()))
                }))
            } else {
                Ok(Err("not re-encoded".to_string()))
            };
            let (rd_ok, rd_v, rd_c) = match redec {
                Ok(Ok((v2, c2))) => (true, value_to_vterm(&v2), c2),
                _ => (false, none_term(), 0),
            };
            json!({"ok":true,"panic":false,"v":value_to_vterm(&v),"consumed":small(c),"err":"","ekind":"",
                   "valid": matches!(valid, Ok(true)), "post_panic": valid.is_err() || re_panic,
                   "reenc":{"ok":re_ok,"wire":bytes_j(&re_wire)},
                   "redec":{"ok":rd_ok,"v":rd_v,"consumed":small(rd_c)}})
        }
        Ok(Err(e)) => json!({"ok":false,"panic":false,"v":none_term(),"consumed":0,"ekind":ekind(&e),"err":e,"valid":false,"post_panic":false,
                             "reenc":{"ok":false,"wire":[]},"redec":{"ok":false,"v":none_term(),"consumed":0}}),
        Err(p) => json!({"ok":false,"panic":true,"v":none_term(),"consumed":0,"err":p,"ekind":"panic","valid":false,"post_panic":false,
                         "reenc":{"ok":false,"wire":[]},"redec":{"ok":false,"v":none_term(),"consumed":0}}),
    }
}

/// schema-aware deserializer into one target type: outcome, bytes consumed, error kind
fn deser_into<T: serde::de::DeserializeOwned>(schema: &Schema, bytes: &[u8]) -> J {
    let all = bytes.to_vec();
    let r = guarded(std::panic::AssertUnwindSafe(|| {
        let r = GenericDatumReader::builder(schema).build().map_err(|e| e.to_string())?;
        let mut slice: &[u8] = &all;
        m_begin();
        let d: Result<T, _> = r.read_deser(&mut slice);
        m_end();
        let _d = d.map_err(|e| e.to_string())?;
        Ok::<usize, String>(all.len() - slice.len())
    }));
    m_end();
    match r {
        Ok(Ok(c)) => json!({"ok":true,"panic":false,"consumed":small(c),"err":"","ekind":""}),
        Ok(Err(e)) => json!({"ok":false,"panic":false,"consumed":0,"ekind":ekind(&e),"err":e}),
        Err(p) => json!({"ok":false,"panic":true,"consumed":0,"err":p,"ekind":"panic"}),
    }
}

/// schema-aware deserializer into the dynamic target, and into targets that ignore part / all of the datum
/// (`deserialize_ignored_any`: what a Rust type lacking a field of the schema asks for)
fn run_deser(schema: &Schema, bytes: &[u8]) -> J {
    let mut j = deser_into::<Dyn>(schema, bytes);
    j["ig"] = J::Array(vec![
        deser_into::<DynSkip<0>>(schema, bytes),
        deser_into::<DynSkip<1>>(schema, bytes),
        deser_into::<serde::de::IgnoredAny>(schema, bytes),
    ]);
    j
}

/// a reader schema for the same data: every leaf annotated with a logical type (variant 0) or promoted (variant 1)
fn reader_variant(s: &J, variant: u8) -> J {
    let k = s["k"].as_str().unwrap_or("");
    match (k, variant) {
        ("bytes", 0) => json!({"k":"decimal","base":"bytes","precision":6,"scale":2}),
        ("fixed", 0) => json!({"k":"decimal","base":"fixed","name":s["name"],"size":s["size"],"precision":1,"scale":0}),
        ("int", 0) => json!({"k":"date"}),
        ("long", 0) => json!({"k":"timestamp-micros"}),
        ("string", 0) => json!({"k":"uuid","base":"string"}),
        ("int", 1) => json!({"k":"long"}),
        ("long", 1) | ("float", 1) => json!({"k":"double"}),
        ("string", 1) => json!({"k":"bytes"}),
        ("bytes", 1) => json!({"k":"string"}),
        ("array", _) => json!({"k":"array","items":reader_variant(&s["items"], variant)}),
        ("map", _) => json!({"k":"map","values":reader_variant(&s["values"], variant)}),
        ("union", _) => json!({"k":"union","branches":s["branches"].as_array().unwrap().iter().map(|b| reader_variant(b, variant)).collect::<Vec<_>>()}),
        ("record", _) => {
            let mut r = s.clone();
            r["fields"] = J::Array(s["fields"].as_array().unwrap().iter().map(|f| { let mut g = f.clone(); g["type"] = reader_variant(&f["type"], variant); g }).collect());
            r
        }
        _ => s.clone(),
    }
}

/// the datum reader with a reader schema (schema resolution of whatever the bytes decode to): outcome only
fn run_resolving(schema: &Schema, sterm: &J, bytes: &[u8]) -> J {
    let mut outs = vec![];
    for variant in 0..2u8 {
        let rterm = reader_variant(sterm, variant);
        if rterm == *sterm { continue; }
        let text = render_schema_text(&rterm, variant);
        let Ok(Ok(rs)) = guarded(|| Schema::parse_str(&text)) else { continue };
        let all = bytes.to_vec();
        let r = guarded(std::panic::AssertUnwindSafe(|| {
            let r = GenericDatumReader::builder(schema).reader_schema(&rs).build().map_err(|e| e.to_string())?;
            let mut slice: &[u8] = &all;
            m_begin();
            let v = r.read_value(&mut slice);
            m_end();
            v.map(|_| ()).map_err(|e| e.to_string())
        }));
        m_end();
        outs.push(match r {
            Ok(Ok(())) => json!({"variant": variant, "ok": true, "panic": false, "ekind": "", "err": ""}),
            Ok(Err(e)) => json!({"variant": variant, "ok": false, "panic": false, "ekind": ekind(&e), "err": e}),
            Err(p) => json!({"variant": variant, "ok": false, "panic": true, "ekind": "panic", "err": p}),
        });
    }
    J::Array(outs)
}

fn run_container(bytes: &[u8]) -> J {
    m_begin();
    let r = guarded(std::panic::AssertUnwindSafe(|| {
        let rd = Reader::new(bytes).map_err(|e| e.to_string())?;
        let mut n_ok = 0usize;
        let mut n_err = 0usize;
        for item in rd {
            match item {
                Ok(_) => n_ok += 1,
                Err(_) => n_err += 1,
            }
            if n_ok >= 100_000 {
                break;
            }
        }
        // the same file through the schema-aware deserializing iterator
        if let Ok(rd2) = Reader::new(bytes) {
            let mut n = 0usize;
            for item in rd2.into_deser_iter::<Dyn>() {
                if item.is_err() { break; }
                n += 1;
                if n >= 100_000 { break; }
            }
        }
        Ok::<(usize, usize), String>((n_ok, n_err))
    }));
    m_end();
    match r {
        Ok(Ok((a, b))) => json!({"ok":true,"panic":false,"items_ok":small(a),"items_err":small(b),"err":""}),
        Ok(Err(e)) => json!({"ok":false,"panic":false,"items_ok":0,"items_err":0,"err":e}),
        Err(p) => json!({"ok":false,"panic":true,"items_ok":0,"items_err":0,"err":p}),
    }
}

fn run_single(schema: &Schema, bytes: &[u8]) -> J {
    let r = guarded(std::panic::AssertUnwindSafe(|| {
        let rd = GenericSingleObjectReader::builder().schema(schema.clone()).build().map_err(|e| e.to_string())?;
        let mut slice: &[u8] = bytes;
        m_begin();
        let v = rd.read_value(&mut slice);
        let mut slice2: &[u8] = bytes;
        let _d: Result<Dyn, _> = rd.read_deser(&mut slice2);
        m_end();
        let v = v.map_err(|e| e.to_string())?;
        Ok::<(Value, usize), String>((v, bytes.len() - slice.len()))
    }));
    m_end();
    match r {
        Ok(Ok((v, c))) => json!({"ok":true,"panic":false,"v":value_to_vterm(&v),"consumed":small(c),"err":""}),
        Ok(Err(e)) => json!({"ok":false,"panic":false,"v":none_term(),"consumed":0,"err":e}),
        Err(p) => json!({"ok":false,"panic":true,"v":none_term(),"consumed":0,"err":p}),
    }
}

fn codec_of(name: &str) -> Option<Codec> {
    Some(match name {
        "null" => Codec::Null,
        "deflate" => Codec::Deflate(Default::default()),
        "snappy" => Codec::Snappy,
        "bzip2" => Codec::Bzip2(Default::default()),
        "xz" => Codec::Xz(Default::default()),
        "zstandard" => Codec::Zstandard(Default::default()),
        _ => return None,
    })
}

fn run_decompress(codec: &str, bytes: &[u8]) -> J {
    let Some(c) = codec_of(codec) else {
        return json!({"ok":false,"panic":false,"outlen":0,"err":"unknown codec"});
    };
    let r = guarded(std::panic::AssertUnwindSafe(|| {
        let mut buf = bytes.to_vec();
        m_begin();
        let r = c.decompress(&mut buf);
        m_end();
        r.map_err(|e| e.to_string())?;
        Ok::<usize, String>(buf.len())
    }));
    m_end();
    match r {
        Ok(Ok(n)) => json!({"ok":true,"panic":false,"outlen":cap31(n),"err":""}),
        Ok(Err(e)) => json!({"ok":false,"panic":false,"outlen":0,"err":e}),
        Err(p) => json!({"ok":false,"panic":true,"outlen":0,"err":p}),
    }
}

fn cmd_run(a: &Args) -> i32 {
    let limit = a.usize("limit", 512 * 1024 * 1024);
    let in_force = apache_avro::util::max_allocation_bytes(limit);
    let lines = read_lines(a.req("in"));
    let from = a.usize("from", 0);
    let mut out: Box<dyn Write> = Box::new(
        std::fs::OpenOptions::new().create(true).append(true).open(a.req("out")).expect("open out"),
    );
    start_watchdog(a.u64("watchdog-ms", 10_000));
    for (idx, line) in lines.iter().enumerate().skip(from) {
        let case: J = serde_json::from_str(line).expect("case json");
        let entry = case["entry"].as_str().unwrap_or("datum").to_string();
        let bytes = j_bytes(&case["bytes"]);
        writeln!(out, "{}", json!({"begin": idx})).unwrap();
        out.flush().unwrap();
        let mut ev = json!({"ev":"decode","id":case["id"],"entry":entry,"s":case["s"],"bytes":case["bytes"],
                            "limit":cap31(in_force),"origin":case["origin"],
                            "heavy": case.get("heavy").and_then(|h| h.as_bool()).unwrap_or(false)});
        // schema (parsed outside the measured region, but guarded)
        let schema = if entry == "container" || entry.starts_with("decompress") {
            None
        } else {
            let text = render_schema_text(&case["s"], (idx % 3) as u8);
            match guarded(|| Schema::parse_str(&text)) {
                Ok(Ok(s)) => Some(s),
                _ => {
                    ev["outcome"] = J::from("schema-not-accepted");
                    ev["largest"] = J::from(0);
                    ev["peak"] = J::from(0);
                    ev["gen"] = no_val();
                    ev["ser"] = no_val();
                    ev["res"] = json!([]);
                    writeln!(out, "{ev}").unwrap();
                    continue;
                }
            }
        };
        reset_counters();
        let base_live = LIVE.load(Ordering::Relaxed);
        CASE_STARTED_MS.store(now_ms(), Ordering::Relaxed);
        let mut res_r = json!([]);
        let (gen_r, ser_r) = match entry.as_str() {
            "datum" => {
                let g = run_datum(schema.as_ref().unwrap(), &bytes);
                let s = run_deser(schema.as_ref().unwrap(), &bytes);
                res_r = run_resolving(schema.as_ref().unwrap(), &case["s"], &bytes);
                (g, s)
            }
            "container" => (run_container(&bytes), no_val()),
            "single" => (run_single(schema.as_ref().unwrap(), &bytes), no_val()),
            e if e.starts_with("decompress:") => (run_decompress(&e[11..], &bytes), no_val()),
            _ => (no_val(), no_val()),
        };
        CASE_STARTED_MS.store(0, Ordering::Relaxed);
        let largest = MEASURED.load(Ordering::Relaxed);
        let peak = PEAK.load(Ordering::Relaxed).saturating_sub(base_live);
        let panicked = gen_r["panic"].as_bool() == Some(true) || ser_r["panic"].as_bool() == Some(true)
            || gen_r.get("post_panic").and_then(|x| x.as_bool()) == Some(true)
            || res_r.as_array().is_some_and(|a| a.iter().any(|x| x["panic"].as_bool() == Some(true)));
        ev["outcome"] = J::from(if panicked { "panic" } else if gen_r["ok"].as_bool() == Some(true) { "ok" } else { "err" });
        ev["largest"] = cap31(largest);
        ev["peak"] = cap31(peak);
        ev["gen"] = gen_r;
        ev["ser"] = ser_r;
        ev["res"] = res_r;
        writeln!(out, "{ev}").unwrap();
        out.flush().unwrap();
    }
    0
}

// ---------------------------------------------------------------------------------------------
// derive damaged inputs from valid encodings
// ---------------------------------------------------------------------------------------------
fn cmd_mutate(a: &Args) -> i32 {
    let lines = read_lines(a.req("scn"));
    let mut out = open_out(a.req("out"));
    let mut rng = Rng::new(a.u64("seed", 1));
    let per = a.usize("per", 6);
    let mut id = a.usize("first-id", 0);
    for (idx, line) in lines.iter().enumerate() {
        let scn: J = serde_json::from_str(line).expect("scenario json");
        let s = &scn["s"];
        let text = render_schema_text(s, (idx % 3) as u8);
        let Ok(Ok(schema)) = guarded(|| Schema::parse_str(&text)) else { continue };
        let val = vterm_to_value(&scn["v"]);
        let Ok(Ok(wire)) = guarded(std::panic::AssertUnwindSafe(|| {
            GenericDatumWriter::builder(&schema).build().and_then(|w| w.write_value_to_vec(val.clone()))
        })) else { continue };
        let mut muts: Vec<(String, Vec<u8>)> = vec![];
        // every truncation
        for k in 0..wire.len() {
            muts.push((format!("trunc{k}"), wire[..k].to_vec()));
        }
        if !wire.is_empty() {
            for _ in 0..3 {
                let i = rng.below(wire.len());
                let mut w = wire.clone();
                w[i] ^= 1 << rng.below(8);
                muts.push((format!("flip{i}"), w));
                let mut w = wire.clone();
                w[i] = *rng.pick(&[0u8, 1, 2, 0x7f, 0x80, 0xfe, 0xff]);
                muts.push((format!("set{i}"), w));
            }
            // a huge length / count at a random position (zig-zag of large positive / negative numbers)
            let i = rng.below(wire.len());
            for (nm, big) in [("huge", vec![0xfeu8, 0xff, 0xff, 0xff, 0xff, 0xff, 0xff, 0xff, 0xff, 0x01]),
                              ("hugeneg", vec![0xff, 0xff, 0xff, 0xff, 0xff, 0xff, 0xff, 0xff, 0xff, 0x01]),
                              ("big32", vec![0x80, 0x80, 0x80, 0x80, 0x10]),
                              ("neg1", vec![0x01])] {
                let mut w = wire[..i].to_vec();
                w.extend_from_slice(&big);
                w.extend_from_slice(&wire[i + 1..]);
                muts.push((format!("{nm}{i}"), w));
            }
            // duplicate a slice
            let i = rng.below(wire.len());
            let mut w = wire[..i].to_vec();
            w.extend_from_slice(&wire[i..]);
            w.extend_from_slice(&wire[i..]);
            muts.push((format!("dup{i}"), w));
        }
        muts.push(("valid".to_string(), wire.clone()));
        // sample `per` of them (always keep the valid one and up to 3 truncations)
        let mut chosen = vec![];
        let n = muts.len();
        for _ in 0..per.min(n) {
            chosen.push(muts[rng.below(n)].clone());
        }
        chosen.push(muts[n - 1].clone());
        for (origin, bytes) in chosen {
            if bytes.len() > 4000 {
                continue;
            }
            writeln!(out, "{}", json!({"id": small(id), "entry":"datum", "s": s, "bytes": bytes_j(&bytes), "origin": origin})).unwrap();
            id += 1;
        }
    }
    0
}


// ---------------------------------------------------------------------------------------------
// hostile container files, single-object messages and compressed blocks (inputs only)
// ---------------------------------------------------------------------------------------------
fn zz(n: i64) -> Vec<u8> {
    let mut z = ((n << 1) ^ (n >> 63)) as u64;
    let mut out = vec![];
    loop {
        if z < 0x80 {
            out.push(z as u8);
            break;
        }
        out.push((z & 0x7f) as u8 | 0x80);
        z >>= 7;
    }
    out
}
fn raw_file(meta: &[(&str, Vec<u8>)], marker: [u8; 16], blocks: &[(i64, Vec<u8>)]) -> Vec<u8> {
    let mut f = b"Obj\x01".to_vec();
    if !meta.is_empty() {
        f.extend(zz(meta.len() as i64));
        for (k, v) in meta {
            f.extend(zz(k.len() as i64));
            f.extend(k.as_bytes());
            f.extend(zz(v.len() as i64));
            f.extend(v);
        }
    }
    f.push(0);
    f.extend(marker);
    for (count, payload) in blocks {
        f.extend(zz(*count));
        f.extend(zz(payload.len() as i64));
        f.extend(payload);
        f.extend(marker);
    }
    f
}

fn cmd_gen_files(a: &Args) -> i32 {
    let mut out = open_out(a.req("out"));
    let mut rng = Rng::new(a.u64("seed", 1));
    let per = a.usize("per", 40);
    let mut id = a.usize("first-id", 0);
    let null_s = json!({"k":"null"});
    let mut emit = |entry: &str, s: &J, bytes: &[u8], origin: &str, out: &mut Box<dyn Write>| {
        if bytes.len() <= 20000 {
            writeln!(out, "{}", json!({"id": small(id), "entry": entry, "s": s, "bytes": bytes_j(bytes), "origin": origin})).unwrap();
            id += 1;
        }
    };
    let m = [7u8; 16];
    // --- valid files from the real writer, all codecs, then damaged
    let schemas = [r#""long""#, r#"{"type":"record","name":"R","fields":[{"name":"a","type":"long"},{"name":"b","type":"string"}]}"#,
                   r#"{"type":"array","items":"null"}"#, r#"{"type":"fixed","name":"F","size":4}"#];
    let codecs = ["null", "deflate", "snappy", "bzip2", "xz", "zstandard"];
    for (si, st) in schemas.iter().enumerate() {
        let schema = Schema::parse_str(st).unwrap();
        for c in codecs {
            let mut w = apache_avro::Writer::builder().schema(&schema).writer(Vec::new()).codec(codec_of(c).unwrap())
                .marker(m).block_size(8).build().unwrap();
            for k in 0..5i64 {
                let v = match si {
                    0 => Value::Long(k * 1000),
                    1 => Value::Record(vec![("a".into(), Value::Long(k)), ("b".into(), Value::String(format!("s{k}")))]),
                    2 => Value::Array(vec![Value::Null; k as usize]),
                    _ => Value::Fixed(4, vec![k as u8; 4]),
                };
                w.append_value(v).unwrap();
            }
            let file = w.into_inner().unwrap();
            emit("container", &null_s, &file, "valid", &mut out);
            for _ in 0..per {
                let mut f = file.clone();
                let origin;
                match rng.below(5) {
                    0 => { let k = rng.below(f.len()); f.truncate(k); origin = "trunc"; }
                    1 => { let i = rng.below(f.len()); f[i] ^= 1 << rng.below(8); origin = "flip"; }
                    2 => { let i = rng.below(f.len()); f[i] = *rng.pick(&[0u8, 1, 0x7f, 0x80, 0xff]); origin = "set"; }
                    3 => {
                        let i = rng.below(f.len());
                        let big: &[u8] = *rng.pick(&[&[0xfeu8, 0xff, 0xff, 0xff, 0xff, 0xff, 0xff, 0xff, 0xff, 0x01][..],
                                                     &[0xff, 0xff, 0xff, 0xff, 0xff, 0xff, 0xff, 0xff, 0xff, 0x01][..],
                                                     &[0x80, 0x80, 0x80, 0x80, 0x10][..], &[0x80, 0x80, 0x80, 0x01][..]]);
                        let mut g = f[..i].to_vec(); g.extend_from_slice(big); g.extend_from_slice(&f[i + 1..]); f = g; origin = "huge";
                    }
                    _ => { let i = rng.below(f.len()); let tail = f[i..].to_vec(); f.extend(tail); origin = "dup"; }
                }
                emit("container", &null_s, &f, origin, &mut out);
            }
        }
    }
    // --- hand-made hostile headers
    let sch = |t: &str| t.as_bytes().to_vec();
    let hostile: Vec<(&str, Vec<u8>)> = vec![
        ("empty-level-bzip2", raw_file(&[("avro.schema", sch("\"long\"")), ("avro.codec", sch("bzip2")), ("avro.codec.compression_level", vec![])], m, &[])),
        ("empty-level-xz", raw_file(&[("avro.schema", sch("\"long\"")), ("avro.codec", sch("xz")), ("avro.codec.compression_level", vec![])], m, &[])),
        ("empty-level-zstd", raw_file(&[("avro.schema", sch("\"long\"")), ("avro.codec", sch("zstandard")), ("avro.codec.compression_level", vec![])], m, &[])),
        ("level-255-xz", raw_file(&[("avro.schema", sch("\"long\"")), ("avro.codec", sch("xz")), ("avro.codec.compression_level", vec![255])], m, &[(1, vec![2])])),
        ("level-255-bzip2", raw_file(&[("avro.schema", sch("\"long\"")), ("avro.codec", sch("bzip2")), ("avro.codec.compression_level", vec![255])], m, &[(1, vec![2])])),
        ("level-255-zstd", raw_file(&[("avro.schema", sch("\"long\"")), ("avro.codec", sch("zstandard")), ("avro.codec.compression_level", vec![255])], m, &[(1, vec![2])])),
        ("codec-garbage", raw_file(&[("avro.schema", sch("\"long\"")), ("avro.codec", vec![0xff, 0xfe])], m, &[])),
        ("codec-unknown", raw_file(&[("avro.schema", sch("\"long\"")), ("avro.codec", sch("lz4"))], m, &[])),
        ("no-schema", raw_file(&[("avro.codec", sch("null"))], m, &[])),
        ("schema-not-json", raw_file(&[("avro.schema", sch("{"))], m, &[])),
        ("fixed-2p40", raw_file(&[("avro.schema", sch(r#"{"type":"fixed","name":"F","size":1099511627776}"#))], m, &[(1, vec![1, 2, 3])])),
        ("fixed-u64max", raw_file(&[("avro.schema", sch(r#"{"type":"fixed","name":"F","size":18446744073709551615}"#))], m, &[(1, vec![1, 2, 3])])),
        ("fixed-2p31", raw_file(&[("avro.schema", sch(r#"{"type":"fixed","name":"F","size":2147483648}"#))], m, &[(1, vec![1, 2, 3])])),
        ("array-fixed-2p33", raw_file(&[("avro.schema", sch(r#"{"type":"array","items":{"type":"fixed","name":"F","size":8589934592}}"#))], m, &[(1, vec![2, 0])])),
        ("decimal-fixed-2p40", raw_file(&[("avro.schema", sch(r#"{"type":"fixed","name":"F","size":1099511627776,"logicalType":"decimal","precision":5}"#))], m, &[(1, vec![1])])),
        ("null-items-2p40", raw_file(&[("avro.schema", sch("\"null\""))], m, &[(1 << 40, vec![])])),
        ("array-null-2p40", raw_file(&[("avro.schema", sch(r#"{"type":"array","items":"null"}"#))], m, &[(1, { let mut p = zz(1 << 40); p.push(0); p })])),
        ("block-size-2p40", { let mut f = raw_file(&[("avro.schema", sch("\"long\""))], m, &[]); f.extend(zz(1)); f.extend(zz(1 << 40)); f.extend([2u8; 20]); f }),
        ("block-size-neg", { let mut f = raw_file(&[("avro.schema", sch("\"long\""))], m, &[]); f.extend(zz(1)); f.extend(zz(-5)); f.extend([2u8; 20]); f }),
        ("block-count-neg", { let mut f = raw_file(&[("avro.schema", sch("\"long\""))], m, &[]); f.extend(zz(-3)); f.extend(zz(1)); f.extend([2u8; 1]); f.extend(m); f }),
        ("meta-count-2p40", { let mut f = b"Obj\x01".to_vec(); f.extend(zz(1 << 40)); f.extend([0u8; 30]); f }),
        ("meta-count-min", { let mut f = b"Obj\x01".to_vec(); f.extend(zz(i64::MIN)); f.extend(zz(5)); f.extend([0u8; 30]); f }),
        ("meta-value-2p40", { let mut f = b"Obj\x01".to_vec(); f.extend(zz(1)); f.extend(zz(11)); f.extend(b"avro.schema"); f.extend(zz(1 << 40)); f.extend([0u8; 30]); f }),
        ("deep-schema", raw_file(&[("avro.schema", { let mut t = String::new(); for _ in 0..200 { t.push_str(r#"{"type":"array","items":"#); } t.push_str("\"int\""); for _ in 0..200 { t.push('}'); } t.into_bytes() })], m, &[])),
    ];
    for (name, f) in &hostile {
        emit("container", &null_s, f, name, &mut out);
    }
    // --- single-object messages: valid, then every truncation and a few flips
    for (st, term) in [(r#""long""#, json!({"k":"long"})), (r#"{"type":"array","items":"null"}"#, json!({"k":"array","items":{"k":"null"}})),
                       (r#"["null","string"]"#, json!({"k":"union","branches":[{"k":"null"},{"k":"string"}]}))] {
        let schema = Schema::parse_str(st).unwrap();
        let mut w = apache_avro::GenericSingleObjectWriter::new_with_capacity(&schema, 64).unwrap();
        let v = match st { r#""long""# => Value::Long(-123456789), r#"["null","string"]"# => Value::Union(1, Box::new(Value::String("héllo".into()))), _ => Value::Array(vec![Value::Null; 3]) };
        let mut msg = vec![];
        w.write_value_ref(&v, &mut msg).unwrap();
        emit("single", &term, &msg, "valid", &mut out);
        for k in 0..msg.len() {
            emit("single", &term, &msg[..k], "trunc", &mut out);
        }
        for _ in 0..per.min(20) {
            let mut f = msg.clone();
            let i = rng.below(f.len());
            f[i] ^= 1 << rng.below(8);
            emit("single", &term, &f, "flip", &mut out);
        }
        let mut f = msg[..10].to_vec();
        f.extend(zz(1 << 40));
        f.push(0);
        emit("single", &term, &f, "huge", &mut out);
    }
    // --- compressed blocks: bombs, truncations, garbage
    for c in codecs {
        let entry = format!("decompress:{c}");
        let codec = codec_of(c).unwrap();
        for (nm, plain) in [("bomb8m", vec![0u8; 8 << 20]), ("small", b"hello hello hello hello".to_vec()), ("empty", vec![])] {
            let mut buf = plain.clone();
            if codec.compress(&mut buf).is_err() {
                continue;
            }
            emit(&entry, &null_s, &buf, nm, &mut out);
            if !buf.is_empty() && buf.len() < 2000 {
                for _ in 0..per.min(12) {
                    let mut f = buf.clone();
                    match rng.below(3) {
                        0 => { let k = rng.below(f.len()); f.truncate(k); }
                        1 => { let i = rng.below(f.len()); f[i] ^= 1 << rng.below(8); }
                        _ => { let i = rng.below(f.len()); f[i] = rng.next() as u8; }
                    }
                    emit(&entry, &null_s, &f, "damaged", &mut out);
                }
            }
        }
        for _ in 0..per.min(15) {
            let n = rng.below(40);
            let g: Vec<u8> = (0..n).map(|_| rng.next() as u8).collect();
            emit(&entry, &null_s, &g, "garbage", &mut out);
        }
    }
    0
}

fn main() {
    quiet_panics();
    let args = parse_args();
    let rc = match args.cmd.as_str() {
        "run" => cmd_run(&args),
        "mutate" => cmd_mutate(&args),
        "gen-files" => cmd_gen_files(&args),
        other => {
            eprintln!("unknown command {other:?}");
            2
        }
    };
    std::process::exit(rc);
}
