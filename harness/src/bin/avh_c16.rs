//! avh_c16 — serde executions (C16).
use avro_verif_harness::{c16, parse_args, quiet_panics};

fn main() {
    quiet_panics();
    let args = parse_args();
    let rc = match args.cmd.as_str() {
        "serde-run" => c16::cmd_run(&args),
        "corpus-names" => {
            for n in c16::CORPUS_NAMES {
                println!("{n}");
            }
            0
        }
        other => {
            eprintln!("unknown command {other:?}");
            2
        }
    };
    std::process::exit(rc);
}
