//! avh_c13 — write paths against a faulting sink (C13).
//!
//! `run --out FILE [--seed S] [--tier quick|thorough]`
//! For every writer scenario x per-call acceptance policy x (fault kind, call index) the scenario is
//! executed on an instrumented sink that obeys the std::io::Write contract; every sink call is
//! recorded.  Reference bytes come from the same scenario on a plain Vec<u8>.

use apache_avro::types::Value;
use apache_avro::writer::datum::GenericDatumWriter;
use apache_avro::{AvroSchema, Codec, GenericSingleObjectWriter, Schema, SpecificSingleObjectWriter, Writer};
use avro_verif_harness::generate::Rng;
use avro_verif_harness::term::{bytes_j, small};
use avro_verif_harness::{Args, guarded, open_out, parse_args, quiet_panics};
use serde::Serialize;
use serde_json::{Value as J, json};
use std::cell::RefCell;
use std::io::{self, Write};
use std::rc::Rc;

#[derive(Clone, Copy, PartialEq, Debug)]
enum Fault { None, Interrupted, Zero, Error, FlushError }

struct Log {
    accepted: Vec<u8>,
    calls: Vec<J>,
    ncall: usize,
}
#[derive(Clone)]
struct FaultySink {
    log: Rc<RefCell<Log>>,
    /// accept at most `k` bytes per call (0 = everything); `rand` = pseudo-random 1..=k
    k: usize,
    rand: Option<Rc<RefCell<Rng>>>,
    fault: Fault,
    fault_at: usize,
}
impl FaultySink {
    fn new(k: usize, rand: Option<u64>, fault: Fault, fault_at: usize) -> Self {
        FaultySink { log: Rc::new(RefCell::new(Log { accepted: vec![], calls: vec![], ncall: 0 })), k,
                     rand: rand.map(|s| Rc::new(RefCell::new(Rng::new(s)))), fault, fault_at }
    }
}
impl Write for FaultySink {
    fn write(&mut self, buf: &[u8]) -> io::Result<usize> {
        let mut log = self.log.borrow_mut();
        let idx = log.ncall;
        log.ncall += 1;
        let head: Vec<u8> = buf.iter().take(4).copied().collect();
        let rec = |kind: &str, n: usize| json!(["write", small(buf.len()), small(n), kind, bytes_j(&head)]);
        if idx == self.fault_at && self.fault != Fault::None && self.fault != Fault::FlushError {
            return match self.fault {
                Fault::Interrupted => { let r = rec("interrupted", 0); log.calls.push(r); Err(io::Error::from(io::ErrorKind::Interrupted)) }
                Fault::Zero => { let r = rec("zero", 0); log.calls.push(r); Ok(0) }
                _ => { let r = rec("error", 0); log.calls.push(r); Err(io::Error::other("harness: injected sink error")) }
            };
        }
        let mut n = if self.k == 0 { buf.len() } else { buf.len().min(self.k) };
        if let Some(r) = &self.rand {
            if n > 1 { n = 1 + r.borrow_mut().below(n); }
        }
        log.accepted.extend_from_slice(&buf[..n]);
        let r = rec("ok", n);
        log.calls.push(r);
        Ok(n)
    }
    fn flush(&mut self) -> io::Result<()> {
        let mut log = self.log.borrow_mut();
        let idx = log.ncall;
        log.ncall += 1;
        if idx == self.fault_at && self.fault == Fault::FlushError {
            log.calls.push(json!(["flush", 0, 0, "error", []]));
            return Err(io::Error::other("harness: injected flush error"));
        }
        log.calls.push(json!(["flush", 0, 0, "ok", []]));
        Ok(())
    }
}

// ---- writer scenarios -----------------------------------------------------------------------
#[derive(Serialize, AvroSchema, Clone)]
struct Msg { id: i64, name: String, tags: Vec<String>, score: Option<f64> }
impl From<Msg> for Value {
    fn from(m: Msg) -> Value {
        Value::Record(vec![
            ("id".into(), Value::Long(m.id)), ("name".into(), Value::String(m.name)),
            ("tags".into(), Value::Array(m.tags.into_iter().map(Value::String).collect())),
            ("score".into(), match m.score { None => Value::Union(0, Box::new(Value::Null)), Some(x) => Value::Union(1, Box::new(Value::Double(x))) }),
        ])
    }
}
fn msg() -> Msg { Msg { id: -77, name: "hello world".into(), tags: vec!["a".into(), "bcd".into()], score: Some(2.5) } }

const KITCHEN: &str = r#"{"type":"record","name":"K","fields":[
 {"name":"n","type":"null"},{"name":"b","type":"boolean"},{"name":"i","type":"int"},{"name":"l","type":"long"},
 {"name":"f","type":"float"},{"name":"d","type":"double"},{"name":"by","type":"bytes"},{"name":"s","type":"string"},
 {"name":"fx","type":{"type":"fixed","name":"F4","size":4}},{"name":"e","type":{"type":"enum","name":"E","symbols":["A","B"]}},
 {"name":"u","type":["null","string"]},{"name":"a","type":{"type":"array","items":"long"}},{"name":"m","type":{"type":"map","values":"string"}},
 {"name":"dec","type":{"type":"bytes","logicalType":"decimal","precision":9,"scale":2}},
 {"name":"decf","type":{"type":"fixed","name":"DF","size":6,"logicalType":"decimal","precision":9,"scale":2}},
 {"name":"uu","type":{"type":"string","logicalType":"uuid"}},{"name":"du","type":{"type":"fixed","name":"Du","size":12,"logicalType":"duration"}},
 {"name":"bd","type":{"type":"bytes","logicalType":"big-decimal"}},{"name":"ts","type":{"type":"long","logicalType":"timestamp-micros"}},
 {"name":"bare","type":["null","long"]}]}"#;
fn kitchen_value() -> Value {
    use apache_avro::{Decimal, Duration, Days, Millis, Months, Uuid, BigDecimal};
    let mut m = std::collections::HashMap::new();
    m.insert("key".to_string(), Value::String("value".into()));
    Value::Record(vec![
        ("n".into(), Value::Null), ("b".into(), Value::Boolean(true)), ("i".into(), Value::Int(-300)), ("l".into(), Value::Long(1 << 40)),
        ("f".into(), Value::Float(1.5)), ("d".into(), Value::Double(-2.25)), ("by".into(), Value::Bytes(vec![1, 2, 3, 4, 5])),
        ("s".into(), Value::String("hello world".into())), ("fx".into(), Value::Fixed(4, vec![9, 8, 7, 6])), ("e".into(), Value::Enum(1, "B".into())),
        ("u".into(), Value::Union(1, Box::new(Value::String("in a union".into())))),
        ("a".into(), Value::Array(vec![Value::Long(1), Value::Long(-1), Value::Long(1000)])), ("m".into(), Value::Map(m)),
        ("dec".into(), Value::Decimal(Decimal::from(vec![1u8, 44]))), ("decf".into(), Value::Decimal(Decimal::from(vec![255u8, 133]))),
        ("uu".into(), Value::Uuid(Uuid::from_bytes([7; 16]))),
        ("du".into(), Value::Duration(Duration::new(Months::new(1), Days::new(2), Millis::new(3)))),
        ("bd".into(), Value::BigDecimal(BigDecimal::new(12345.into(), 2))), ("ts".into(), Value::TimestampMicros(1_700_000_000_000_000)),
        ("bare".into(), Value::Long(5)),
    ])
}

/// runs scenario `name` on `sink`; returns (final Result as ok/err, returned count or None, counted?)
fn run_scenario<W: Write>(name: &str, sink: W) -> (Result<(), String>, Option<usize>) {
    let kschema = Schema::parse_str(KITCHEN).unwrap();
    let mut sink = sink;
    match name {
        "datum-kitchen" => {
            let w = GenericDatumWriter::builder(&kschema).build().unwrap();
            match w.write_value_ref(&mut sink, &kitchen_value()) { Ok(n) => (Ok(()), Some(n)), Err(e) => (Err(e.to_string()), None) }
        }
        "datum-string" => {
            let s = Schema::String;
            let w = GenericDatumWriter::builder(&s).build().unwrap();
            match w.write_value_ref(&mut sink, &Value::String("hello world".into())) { Ok(n) => (Ok(()), Some(n)), Err(e) => (Err(e.to_string()), None) }
        }
        "datum-unvalidated" => {
            let w = GenericDatumWriter::builder(&kschema).validate(false).build().unwrap();
            match w.write_value_ref(&mut sink, &kitchen_value()) { Ok(n) => (Ok(()), Some(n)), Err(e) => (Err(e.to_string()), None) }
        }
        "ser-direct" | "ser-buffered" => {
            let s = Msg::get_schema();
            let w = GenericDatumWriter::builder(&s).maybe_target_block_size(if name == "ser-buffered" { Some(4) } else { None }).build().unwrap();
            match w.write_ser(&mut sink, &msg()) { Ok(n) => (Ok(()), Some(n)), Err(e) => (Err(e.to_string()), None) }
        }
        "ser-out-of-order" => {
            // the struct hands its fields over in another order than the schema lists them: the serializer holds
            // `c` and `b` back until `a` has been written, then emits them - also that must reach the sink completely
            #[derive(serde::Serialize)]
            struct Swapped { c: String, b: Vec<i64>, a: i64, d: String }
            let s = Schema::parse_str(r#"{"type":"record","name":"Swapped","fields":[{"name":"a","type":"long"},
                {"name":"b","type":{"type":"array","items":"long"}},{"name":"c","type":"string"},{"name":"d","type":"string"}]}"#).unwrap();
            let w = GenericDatumWriter::builder(&s).build().unwrap();
            let v = Swapped { c: "a held-back string of some length".into(), b: vec![1, -2, 300000], a: 7, d: "tail".into() };
            match w.write_ser(&mut sink, &v) { Ok(n) => (Ok(()), Some(n)), Err(e) => (Err(e.to_string()), None) }
        }
        "single-generic" => {
            let mut w = GenericSingleObjectWriter::new_with_capacity(&kschema, 64).unwrap();
            match w.write_value_ref(&kitchen_value(), &mut sink) { Ok(n) => (Ok(()), Some(n)), Err(e) => (Err(e.to_string()), None) }
        }
        "single-generic-reuse" => {
            // the same writer after a call whose sink failed: the failed message must leave nothing behind
            struct AlwaysFail;
            impl Write for AlwaysFail {
                fn write(&mut self, _b: &[u8]) -> std::io::Result<usize> { Err(std::io::Error::other("harness: this sink always fails")) }
                fn flush(&mut self) -> std::io::Result<()> { Ok(()) }
            }
            let s = Schema::String;
            let mut w = GenericSingleObjectWriter::new_with_capacity(&s, 64).unwrap();
            let first = w.write_value_ref(&Value::String("ab".into()), &mut AlwaysFail);
            if first.is_ok() { return (Err("a write into a failing sink returned Ok".to_string()), None); }
            match w.write_value_ref(&Value::String("cde".into()), &mut sink) { Ok(n) => (Ok(()), Some(n)), Err(e) => (Err(e.to_string()), None) }
        }
        "single-generic-fresh" => {
            let s = Schema::String;
            let mut w = GenericSingleObjectWriter::new_with_capacity(&s, 64).unwrap();
            match w.write_value_ref(&Value::String("cde".into()), &mut sink) { Ok(n) => (Ok(()), Some(n)), Err(e) => (Err(e.to_string()), None) }
        }
        "single-specific-value" => {
            let w = SpecificSingleObjectWriter::<Msg>::new().unwrap();
            match w.write_value(msg(), &mut sink) { Ok(n) => (Ok(()), Some(n)), Err(e) => (Err(e.to_string()), None) }
        }
        "single-specific-ser" => {
            let w = SpecificSingleObjectWriter::<Msg>::new().unwrap();
            match w.write_ref(&msg(), &mut sink) { Ok(n) => (Ok(()), Some(n)), Err(e) => (Err(e.to_string()), None) }
        }
        n if n.starts_with("container-") => {
            let codec = match &n[10..] { "deflate" => Codec::Deflate(Default::default()), "snappy" => Codec::Snappy, _ => Codec::Null };
            let s = Msg::get_schema();
            let mut w = Writer::builder().schema(&s).writer(sink).codec(codec).marker([3u8; 16]).block_size(40).build().unwrap();
            let r = (|| -> Result<usize, apache_avro::Error> {
                let mut n = 0;
                for i in 0..4 {
                    n += w.append_value(Msg { id: i, ..msg() })?;
                }
                n += w.append_ser(msg())?;
                n += w.flush()?;
                n += w.append_value(msg())?;
                Ok(n)
            })();
            match r {
                Err(e) => { let _ = guarded(std::panic::AssertUnwindSafe(move || drop(w))); (Err(e.to_string()), None) }
                Ok(n) => {
                    // into_inner flushes the tail; its own count is not reported, so only Ok/Err is meaningful here
                    match w.into_inner() { Ok(_) => (Ok(()), None.or(Some(n)).filter(|_| false)), Err(e) => (Err(e.to_string()), None) }
                }
            }
        }
        other => (Err(format!("unknown scenario {other}")), None),
    }
}

// (container files with a codec or user metadata have a header whose map entry order varies from run to run,
// so their bytes are not comparable with a reference run; the null codec without metadata is deterministic)
const SCENARIOS: [&str; 11] = ["datum-kitchen", "datum-string", "datum-unvalidated", "ser-direct", "ser-buffered", "ser-out-of-order", "single-generic",
    "single-generic-reuse", "single-specific-value", "single-specific-ser", "container-null"];

fn one_run(id: usize, scen: &str, reference: &[u8], k: usize, rand: Option<u64>, fault: Fault, at: usize, out: &mut Box<dyn Write>) -> usize {
    let sink = FaultySink::new(k, rand, fault, at);
    let log = sink.log.clone();
    let scen_owned = scen.to_string();
    let r = guarded(std::panic::AssertUnwindSafe(move || run_scenario(&scen_owned, sink)));
    let (result, returned, panicked) = match r {
        Ok((res, cnt)) => (res, cnt, false),
        Err(p) => (Err(p), None, true),
    };
    let log = log.borrow();
    let ev = json!({"ev":"sink","id":small(id),"scen":scen,"k":small(k),"random":rand.is_some(),
        "fault":format!("{fault:?}"),"fault_at":small(at),"calls":log.calls,"ncalls":small(log.ncall),
        "result": if result.is_ok() { "ok" } else { "err" }, "panic": panicked,
        "counted": returned.is_some(), "returned": small(returned.unwrap_or(0)),
        "delivered": bytes_j(&log.accepted), "reference": bytes_j(reference), "err": result.err().unwrap_or_default()});
    writeln!(out, "{ev}").unwrap();
    log.ncall
}

fn cmd_run(a: &Args) -> i32 {
    let mut out = open_out(a.req("out"));
    let thorough = a.get("tier") == Some("thorough");
    let seed = a.u64("seed", 1);
    let mut id = 0;
    let only = a.get("scen").map(|s| s.to_string());
    for scen in SCENARIOS {
        if let Some(o) = &only { if o != scen { continue; } }
        let mut reference: Vec<u8> = Vec::new();
        // the reference of the reuse scenario is what a FRESH writer delivers for the second message alone
        let (r, _) = run_scenario(if scen == "single-generic-reuse" { "single-generic-fresh" } else { scen }, &mut reference);
        if r.is_err() { eprintln!("reference run of {scen} failed: {r:?}"); return 2; }
        let policies: Vec<(usize, Option<u64>)> = if thorough {
            vec![(0, None), (1, None), (2, None), (3, None), (7, None), (64, None), (5, Some(seed)), (17, Some(seed + 1))]
        } else {
            vec![(0, None), (1, None), (3, None), (7, Some(seed))]
        };
        for (k, rand) in policies {
            let ncalls = one_run(id, scen, &reference, k, rand, Fault::None, 0, &mut out);
            id += 1;
            // a fault of each kind at every call index (thinned for the byte-at-a-time policy in the quick tier)
            let step = if !thorough && ncalls > 60 { ncalls / 40 + 1 } else { 1 };
            let mut at = 0;
            while at < ncalls {
                for f in [Fault::Interrupted, Fault::Zero, Fault::Error, Fault::FlushError] {
                    one_run(id, scen, &reference, k, rand, f, at, &mut out);
                    id += 1;
                }
                at += step;
            }
        }
    }
    out.flush().unwrap();
    0
}

fn main() {
    quiet_panics();
    let args = parse_args();
    let rc = match args.cmd.as_str() {
        "run" => cmd_run(&args),
        other => { eprintln!("unknown command {other:?}"); 2 }
    };
    std::process::exit(rc);
}
