//! avh_c12 — Parsing Canonical Form and fingerprints (C12).  Executes and records; judges nothing.
//!
//!   gen   --seed S --count N --depth D --out F      random (base, variant) scenario lines
//!   run   --scn F --out G                           execute scenarios (spawns `child` for the second process)
//!   child --scn F                                   second process: canonical form + fingerprints only (stdout)
//!   hash  --seed S --count N --out G                apache_avro::rabin::Rabin on raw byte strings
use apache_avro::Schema;
use apache_avro::rabin::Rabin;
use avro_verif_harness::generate::Rng;
use avro_verif_harness::schemajson::*;
use avro_verif_harness::term::{bytes_j, small};
use avro_verif_harness::{Args, guarded, jsontree, open_out, parse_args, quiet_panics, read_lines};
use digest::consts::U8;
use digest::{Digest, FixedOutput, HashMarker, Output, OutputSizeUser, Update};
use md5::Md5;
use serde_json::{Value as J, json};
use sha2::Sha256;
use std::cell::RefCell;
use std::io::Write;

// ---------------------------------------------------------------------------------------------
// A digest that records what it is fed (the fingerprint API is generic over digest::Digest).
// ---------------------------------------------------------------------------------------------
thread_local! {
    static SPY_LOG: RefCell<Vec<Vec<u8>>> = const { RefCell::new(Vec::new()) };
}

#[derive(Default, Clone)]
struct Spy;
impl Update for Spy {
    fn update(&mut self, data: &[u8]) {
        SPY_LOG.with(|l| l.borrow_mut().push(data.to_vec()));
    }
}
impl OutputSizeUser for Spy {
    type OutputSize = U8;
}
impl FixedOutput for Spy {
    fn finalize_into(self, out: &mut Output<Self>) {
        out.copy_from_slice(&[0x53, 0x50, 0x59, 0, 0, 0, 0, 0]);
    }
}
impl HashMarker for Spy {}

fn style_of(idx: usize) -> u8 {
    (idx % 4) as u8
}

/// canonical form and the three fingerprints of the schema a tree denotes
fn measure(tree: &J, style: u8) -> J {
    let text = tree_text(tree, style);
    let mut ev = json!({
        "text": text, "parse_ok": false, "parse_err": "", "panic": false, "panic_msg": "",
        "scan_ok": false, "ctree": t_null(), "compact": false, "cbytes": [], "again_same": false,
        "rabin": [], "spy": [], "spy_calls": 0, "spy_out": [], "md5": [], "sha256": [],
        "re_ok": false, "re_err": "", "re_cbytes": [], "re_ctree": t_null()
    });
    let schema = match guarded(|| Schema::parse_str(&text)) {
        Ok(Ok(s)) => s,
        Ok(Err(e)) => {
            ev["parse_err"] = J::from(e.to_string());
            return ev;
        }
        Err(p) => {
            ev["parse_err"] = J::from(format!("panic: {p}"));
            return ev;
        }
    };
    ev["parse_ok"] = J::from(true);
    let canon = match guarded(std::panic::AssertUnwindSafe(|| schema.canonical_form())) {
        Ok(c) => c,
        Err(p) => {
            ev["panic"] = J::from(true);
            ev["panic_msg"] = J::from(p);
            return ev;
        }
    };
    ev["cbytes"] = bytes_j(canon.as_bytes());
    if let Ok(ct) = jsontree::scan(&canon) {
        ev["scan_ok"] = J::from(true);
        ev["compact"] = J::from(jsontree::render(&ct) == canon);
        ev["ctree"] = ct;
    }
    let fp = guarded(std::panic::AssertUnwindSafe(|| {
        let again = schema.canonical_form();
        let rabin = schema.fingerprint::<Rabin>().bytes;
        SPY_LOG.with(|l| l.borrow_mut().clear());
        let spy_out = schema.fingerprint::<Spy>().bytes;
        let calls: Vec<Vec<u8>> = SPY_LOG.with(|l| l.borrow().clone());
        let md5 = schema.fingerprint::<Md5>().bytes;
        let sha = schema.fingerprint::<Sha256>().bytes;
        (again, rabin, spy_out, calls, md5, sha)
    }));
    match fp {
        Ok((again, rabin, spy_out, calls, md5, sha)) => {
            ev["again_same"] = J::from(again == canon);
            ev["rabin"] = bytes_j(&rabin);
            ev["spy_out"] = bytes_j(&spy_out);
            ev["spy_calls"] = small(calls.len());
            ev["spy"] = bytes_j(&calls.concat());
            ev["md5"] = bytes_j(&md5);
            ev["sha256"] = bytes_j(&sha);
        }
        Err(p) => {
            ev["panic"] = J::from(true);
            ev["panic_msg"] = J::from(p);
        }
    }
    // parsing the canonical form and canonicalising again
    match guarded(|| Schema::parse_str(&canon).map(|s| s.canonical_form())) {
        Ok(Ok(c2)) => {
            ev["re_ok"] = J::from(true);
            ev["re_cbytes"] = bytes_j(c2.as_bytes());
            if let Ok(ct2) = jsontree::scan(&c2) {
                ev["re_ctree"] = ct2;
            }
        }
        Ok(Err(e)) => ev["re_err"] = J::from(e.to_string()),
        Err(p) => ev["re_err"] = J::from(format!("panic: {p}")),
    }
    ev
}

fn cmd_gen(a: &Args) -> i32 {
    let seed = a.u64("seed", 1);
    let count = a.usize("count", 100);
    let depth = a.usize("depth", 3);
    let mut out = open_out(a.req("out"));
    let mut rng = Rng::new(seed ^ 0xC12);
    for i in 0..count {
        let fam = random_family(&mut rng, 1 + i % depth.max(1), 3, true);
        for (k, t) in fam.iter().enumerate() {
            let edits: Vec<&str> = if k == 0 { vec![] } else { vec!["Rerender"] };
            writeln!(out, "{}", json!({"base": fam[0], "t": t, "edits": edits})).unwrap();
        }
    }
    0
}

fn load(a: &Args) -> Vec<J> {
    read_lines(a.req("scn"))
        .iter()
        .enumerate()
        .map(|(i, l)| {
            serde_json::from_str::<J>(l).unwrap_or_else(|e| {
                eprintln!("bad scenario line {i}: {e}");
                std::process::exit(2)
            })
        })
        .collect()
}

fn cmd_child(a: &Args) -> i32 {
    let out = std::io::stdout();
    let mut out = std::io::BufWriter::new(out.lock());
    for (idx, scn) in load(a).iter().enumerate() {
        let t = normalise(&scn["t"]);
        let m = measure(&t, style_of(idx));
        writeln!(out, "{}", json!({"ok": m["parse_ok"], "panic": m["panic"], "cbytes": m["cbytes"], "rabin": m["rabin"], "md5": m["md5"], "sha256": m["sha256"]})).unwrap();
    }
    out.flush().unwrap();
    0
}

fn cmd_run(a: &Args) -> i32 {
    let scns = load(a);
    // second process first: same scenarios, fresh address space / hash seeds / once-cells
    let exe = std::env::current_exe().expect("current_exe");
    let child = std::process::Command::new(exe).arg("child").arg("--scn").arg(a.req("scn")).output().expect("spawn child");
    if !child.status.success() {
        eprintln!("child failed: {}", String::from_utf8_lossy(&child.stderr));
        return 2;
    }
    let second: Vec<J> = String::from_utf8_lossy(&child.stdout).lines().filter(|l| !l.trim().is_empty()).map(|l| serde_json::from_str(l).expect("child json")).collect();
    if second.len() != scns.len() {
        eprintln!("child produced {} lines for {} scenarios", second.len(), scns.len());
        return 2;
    }
    let mut out = open_out(a.req("out"));
    for (idx, scn) in scns.iter().enumerate() {
        let base = normalise(&scn["base"]);
        let t = normalise(&scn["t"]);
        let style = style_of(idx);
        let mut ev = measure(&t, style);
        ev["ev"] = J::from("canon");
        ev["id"] = small(idx);
        ev["style"] = small(style as usize);
        ev["edits"] = scn["edits"].clone();
        ev["base"] = base;
        ev["t"] = t;
        ev["p2"] = second[idx].clone();
        // filled in by the glue from Python's hashlib over `cbytes` (reference digests)
        ev["ref_md5"] = json!([]);
        ev["ref_sha256"] = json!([]);
        writeln!(out, "{ev}").unwrap();
    }
    out.flush().unwrap();
    0
}

/// Rabin directly on byte strings: all of length <= 1, then seeded random ones of length <= maxlen;
/// one-shot, split into two updates, and after reset().
fn cmd_hash(a: &Args) -> i32 {
    let seed = a.u64("seed", 1);
    let count = a.usize("count", 1000);
    let maxlen = a.usize("maxlen", 64);
    let mut out = open_out(a.req("out"));
    let mut rng = Rng::new(seed ^ 0xAB1);
    let mut inputs: Vec<Vec<u8>> = vec![vec![]];
    for b in 0..=255u8 {
        inputs.push(vec![b]);
    }
    let count = if let Some(f) = a.get("only") {
        // replay: exactly one byte string (a JSON array of byte values)
        let j: J = serde_json::from_str(&std::fs::read_to_string(f).expect("read --only")).expect("--only json");
        inputs = vec![avro_verif_harness::term::j_bytes(&j)];
        0
    } else {
        count
    };
    for _ in 0..count {
        let n = rng.below(maxlen + 1);
        let mode = rng.below(4);
        inputs.push((0..n).map(|_| match mode { 0 => rng.below(256) as u8, 1 => *rng.pick(&[0u8, 0xff, 0x80, 0x7f, 1]), 2 => 32 + rng.below(95) as u8, _ => rng.next() as u8 }).collect());
    }
    for (idx, b) in inputs.iter().enumerate() {
        let cut = if b.is_empty() { 0 } else { rng.below(b.len() + 1) };
        let r = guarded(|| {
            let mut h = Rabin::new();
            Digest::update(&mut h, b);
            let one = h.finalize().to_vec();
            let mut h2 = Rabin::new();
            Digest::update(&mut h2, &b[..cut]);
            Digest::update(&mut h2, &b[cut..]);
            let two = h2.finalize().to_vec();
            let mut h3 = Rabin::new();
            Digest::update(&mut h3, b"junk before reset");
            Digest::reset(&mut h3);
            Digest::update(&mut h3, b);
            let three = h3.finalize().to_vec();
            (one, two, three, Rabin::digest(b).to_vec())
        });
        let ev = match r {
            Ok((one, two, three, four)) => json!({"ev":"rabin","id":small(idx),"bytes":bytes_j(b),"cut":small(cut),"panic":false,
                "one":bytes_j(&one),"split":bytes_j(&two),"after_reset":bytes_j(&three),"oneshot":bytes_j(&four)}),
            Err(_) => json!({"ev":"rabin","id":small(idx),"bytes":bytes_j(b),"cut":small(cut),"panic":true,"one":[],"split":[],"after_reset":[],"oneshot":[]}),
        };
        writeln!(out, "{ev}").unwrap();
    }
    out.flush().unwrap();
    0
}

fn main() {
    quiet_panics();
    let args = parse_args();
    let rc = match args.cmd.as_str() {
        "gen" => cmd_gen(&args),
        "run" => cmd_run(&args),
        "child" => cmd_child(&args),
        "hash" => cmd_hash(&args),
        other => {
            eprintln!("unknown command {other:?}");
            2
        }
    };
    std::process::exit(rc);
}
