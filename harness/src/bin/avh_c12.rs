//! avh_c12 — Parsing Canonical Form and fingerprints (C12).  Executes and records; judges nothing.
//!
//!   gen   --seed S --count N --depth D --out F      random (base, variant) scenario lines
//!   run   --scn F --out G                           execute scenarios (spawns `child` for the second process)
//!   child --scn F                                   second process: canonical form + fingerprints only (stdout)
//!   hash  --seed S --count N --out G                apache_avro::rabin::Rabin on raw byte strings
use apache_avro::Schema;
use apache_avro::rabin::Rabin;
use avro_verif_harness::generate::Rng;
use avro_verif_harness::schemajson::*;
use avro_verif_harness::term::{bytes_j, small};
use avro_verif_harness::{Args, guarded, jsontree, open_out, parse_args, quiet_panics, read_lines};
use digest::consts::U8;
use digest::{Digest, FixedOutput, HashMarker, Output, OutputSizeUser, Update};
use md5::Md5;
use serde_json::{Value as J, json};
use sha2::Sha256;
use std::cell::RefCell;
use std::io::Write;

// ---------------------------------------------------------------------------------------------
// A digest that records what it is fed (the fingerprint API is generic over digest::Digest).
// ---------------------------------------------------------------------------------------------
thread_local! {
    static SPY_LOG: RefCell<Vec<Vec<u8>>> = const { RefCell::new(Vec::new()) };
}

#[derive(Default, Clone)]
struct Spy;
impl Update for Spy {
    fn update(&mut self, data: &[u8]) {
        SPY_LOG.with(|l| l.borrow_mut().push(data.to_vec()));
    }
}
impl OutputSizeUser for Spy {
    type OutputSize = U8;
}
impl FixedOutput for Spy {
    fn finalize_into(self, out: &mut Output<Self>) {
        out.copy_from_slice(&[0x53, 0x50, 0x59, 0, 0, 0, 0, 0]);
    }
}
impl HashMarker for Spy {}

// ---------------------------------------------------------------------------------------------
// "exotic" mode: permissive enum-symbol / field-name validators are installed (a documented public
// setting), and the field names and enum symbols of every scenario are respelt with characters
// outside ASCII (combining marks, Thai, ZWJ, hyphen): the canonical form must carry them as UTF-8.
// ---------------------------------------------------------------------------------------------
struct AnySymbol;
impl apache_avro::validator::EnumSymbolNameValidator for AnySymbol {
    fn validate(&self, symbol: &str) -> apache_avro::AvroResult<()> {
        if symbol.is_empty() { Err(apache_avro::Error::new(apache_avro::error::Details::EnumSymbolName(symbol.to_string()))) } else { Ok(()) }
    }
}
struct AnyField;
impl apache_avro::validator::RecordFieldNameValidator for AnyField {
    fn validate(&self, field_name: &str) -> apache_avro::AvroResult<()> {
        if field_name.is_empty() { Err(apache_avro::Error::new(apache_avro::error::Details::FieldName(field_name.to_string()))) } else { Ok(()) }
    }
}
fn install_exotic() -> bool {
    apache_avro::validator::set_enum_symbol_name_validator(Box::new(AnySymbol)).is_ok()
        && apache_avro::validator::set_record_field_name_validator(Box::new(AnyField)).is_ok()
}
fn exotic_name(s: &str) -> String {
    match s.bytes().map(|b| b as usize).sum::<usize>() % 6 {
        0 => format!("{s}\u{308}"),          // combining diaeresis (NFD spelling)
        1 => format!("Zu\u{308}{s}"),
        2 => format!("{s}\u{e01}\u{e34}"),    // Thai consonant + vowel sign
        3 => format!("{s}\u{200d}x"),        // zero width joiner
        4 => format!("{s}-\u{e9}\u{ad}"),     // hyphen, precomposed letter, soft hyphen
        _ => format!("{s}\u{fe0f}"),          // variation selector
    }
}
fn collect_symbols(t: &J, acc: &mut std::collections::HashSet<String>) {
    match t["j"].as_str() {
        Some("obj") => {
            for p in t["kv"].as_array().unwrap() {
                if p[0] == "symbols" && p[1]["j"] == "arr" {
                    for x in p[1]["items"].as_array().unwrap() {
                        if let Some(s) = x["s"].as_str() { acc.insert(s.to_string()); }
                    }
                }
                collect_symbols(&p[1], acc);
            }
        }
        Some("arr") => t["items"].as_array().unwrap().iter().for_each(|x| collect_symbols(x, acc)),
        _ => {}
    }
}
fn exotic_tree(t: &J, syms: &std::collections::HashSet<String>, in_fields: bool) -> J {
    let ren = |x: &J| -> J { match x["s"].as_str() { Some(s) if x["j"] == "str" => jsontree::str_term(&exotic_name(s)), _ => x.clone() } };
    match t["j"].as_str() {
        Some("obj") => {
            let kv: Vec<J> = t["kv"].as_array().unwrap().iter().map(|p| {
                let k = p[0].as_str().unwrap_or("");
                let v = &p[1];
                let nv = if k == "symbols" && v["j"] == "arr" {
                    json!({"j":"arr","items": v["items"].as_array().unwrap().iter().map(&ren).collect::<Vec<_>>()})
                } else if k == "default" && v["j"] == "str" && v["s"].as_str().is_some_and(|s| syms.contains(s)) {
                    ren(v)
                } else if k == "name" && in_fields {
                    ren(v)
                } else if k == "fields" && v["j"] == "arr" {
                    json!({"j":"arr","items": v["items"].as_array().unwrap().iter().map(|f| exotic_tree(f, syms, true)).collect::<Vec<_>>()})
                } else {
                    exotic_tree(v, syms, false)
                };
                json!([k, nv])
            }).collect();
            json!({"j":"obj","kv":kv})
        }
        Some("arr") => json!({"j":"arr","items": t["items"].as_array().unwrap().iter().map(|x| exotic_tree(x, syms, false)).collect::<Vec<_>>()}),
        _ => t.clone(),
    }
}
fn exotic(t: &J) -> J {
    let mut syms = std::collections::HashSet::new();
    collect_symbols(t, &mut syms);
    exotic_tree(t, &syms, false)
}

fn style_of(idx: usize) -> u8 {
    (idx % 4) as u8
}

/// canonical form and the three fingerprints of the schema a tree denotes
fn measure(tree: &J, style: u8) -> J {
    let text = tree_text(tree, style);
    let mut ev = json!({
        "text": text, "parse_ok": false, "parse_err": "", "panic": false, "panic_msg": "",
        "scan_ok": false, "ctree": t_null(), "compact": false, "cbytes": [], "again_same": false,
        "rabin": [], "spy": [], "spy_calls": 0, "spy_out": [], "md5": [], "sha256": [],
        "re_ok": false, "re_err": "", "re_cbytes": [], "re_ctree": t_null()
    });
    let schema = match guarded(|| Schema::parse_str(&text)) {
        Ok(Ok(s)) => s,
        Ok(Err(e)) => {
            ev["parse_err"] = J::from(e.to_string());
            return ev;
        }
        Err(p) => {
            ev["parse_err"] = J::from(format!("panic: {p}"));
            return ev;
        }
    };
    ev["parse_ok"] = J::from(true);
    let canon = match guarded(std::panic::AssertUnwindSafe(|| schema.canonical_form())) {
        Ok(c) => c,
        Err(p) => {
            ev["panic"] = J::from(true);
            ev["panic_msg"] = J::from(p);
            return ev;
        }
    };
    ev["cbytes"] = bytes_j(canon.as_bytes());
    if let Ok(ct) = jsontree::scan(&canon) {
        ev["scan_ok"] = J::from(true);
        ev["compact"] = J::from(jsontree::render(&ct) == canon);
        ev["ctree"] = ct;
    }
    let fp = guarded(std::panic::AssertUnwindSafe(|| {
        let again = schema.canonical_form();
        let rabin = schema.fingerprint::<Rabin>().bytes;
        SPY_LOG.with(|l| l.borrow_mut().clear());
        let spy_out = schema.fingerprint::<Spy>().bytes;
        let calls: Vec<Vec<u8>> = SPY_LOG.with(|l| l.borrow().clone());
        let md5 = schema.fingerprint::<Md5>().bytes;
        let sha = schema.fingerprint::<Sha256>().bytes;
        (again, rabin, spy_out, calls, md5, sha)
    }));
    match fp {
        Ok((again, rabin, spy_out, calls, md5, sha)) => {
            ev["again_same"] = J::from(again == canon);
            ev["rabin"] = bytes_j(&rabin);
            ev["spy_out"] = bytes_j(&spy_out);
            ev["spy_calls"] = small(calls.len());
            ev["spy"] = bytes_j(&calls.concat());
            ev["md5"] = bytes_j(&md5);
            ev["sha256"] = bytes_j(&sha);
        }
        Err(p) => {
            ev["panic"] = J::from(true);
            ev["panic_msg"] = J::from(p);
        }
    }
    // parsing the canonical form and canonicalising again
    match guarded(|| Schema::parse_str(&canon).map(|s| s.canonical_form())) {
        Ok(Ok(c2)) => {
            ev["re_ok"] = J::from(true);
            ev["re_cbytes"] = bytes_j(c2.as_bytes());
            if let Ok(ct2) = jsontree::scan(&c2) {
                ev["re_ctree"] = ct2;
            }
        }
        Ok(Err(e)) => ev["re_err"] = J::from(e.to_string()),
        Err(p) => ev["re_err"] = J::from(format!("panic: {p}")),
    }
    ev
}

fn cmd_gen(a: &Args) -> i32 {
    let seed = a.u64("seed", 1);
    let count = a.usize("count", 100);
    let depth = a.usize("depth", 3);
    let mut out = open_out(a.req("out"));
    let mut rng = Rng::new(seed ^ 0xC12);
    for i in 0..count {
        let fam = random_family(&mut rng, 1 + i % depth.max(1), 3, true);
        for (k, t) in fam.iter().enumerate() {
            let edits: Vec<&str> = if k == 0 { vec![] } else { vec!["Rerender"] };
            writeln!(out, "{}", json!({"base": fam[0], "t": t, "edits": edits})).unwrap();
        }
    }
    0
}

fn load(a: &Args) -> Vec<J> {
    read_lines(a.req("scn"))
        .iter()
        .enumerate()
        .map(|(i, l)| {
            serde_json::from_str::<J>(l).unwrap_or_else(|e| {
                eprintln!("bad scenario line {i}: {e}");
                std::process::exit(2)
            })
        })
        .collect()
}

fn cmd_child(a: &Args) -> i32 {
    let out = std::io::stdout();
    let mut out = std::io::BufWriter::new(out.lock());
    let ex = a.get("exotic").is_some();
    if ex && !install_exotic() {
        eprintln!("could not install the permissive validators");
        return 2;
    }
    for (idx, scn) in load(a).iter().enumerate() {
        let t = if ex { exotic(&normalise(&scn["t"])) } else { normalise(&scn["t"]) };
        let m = measure(&t, style_of(idx));
        writeln!(out, "{}", json!({"ok": m["parse_ok"], "panic": m["panic"], "cbytes": m["cbytes"], "rabin": m["rabin"], "md5": m["md5"], "sha256": m["sha256"]})).unwrap();
    }
    out.flush().unwrap();
    0
}

fn cmd_run(a: &Args) -> i32 {
    let scns = load(a);
    // second process first: same scenarios, fresh address space / hash seeds / once-cells
    let exe = std::env::current_exe().expect("current_exe");
    let ex = a.get("exotic").is_some();
    if ex && !install_exotic() {
        eprintln!("could not install the permissive validators");
        return 2;
    }
    let mut cmd = std::process::Command::new(exe);
    cmd.arg("child").arg("--scn").arg(a.req("scn"));
    if ex { cmd.arg("--exotic").arg("1"); }
    let child = cmd.output().expect("spawn child");
    if !child.status.success() {
        eprintln!("child failed: {}", String::from_utf8_lossy(&child.stderr));
        return 2;
    }
    let second: Vec<J> = String::from_utf8_lossy(&child.stdout).lines().filter(|l| !l.trim().is_empty()).map(|l| serde_json::from_str(l).expect("child json")).collect();
    if second.len() != scns.len() {
        eprintln!("child produced {} lines for {} scenarios", second.len(), scns.len());
        return 2;
    }
    let mut out = open_out(a.req("out"));
    for (idx, scn) in scns.iter().enumerate() {
        let (base, t) = if ex { (exotic(&normalise(&scn["base"])), exotic(&normalise(&scn["t"]))) }
                        else { (normalise(&scn["base"]), normalise(&scn["t"])) };
        let style = style_of(idx);
        let mut ev = measure(&t, style);
        ev["ev"] = J::from("canon");
        ev["id"] = small(idx);
        ev["style"] = small(style as usize);
        ev["edits"] = scn["edits"].clone();
        ev["base"] = base;
        ev["t"] = t;
        ev["p2"] = second[idx].clone();
        // filled in by the glue from Python's hashlib over `cbytes` (reference digests)
        ev["ref_md5"] = json!([]);
        ev["ref_sha256"] = json!([]);
        writeln!(out, "{ev}").unwrap();
    }
    out.flush().unwrap();
    0
}

/// Rabin directly on byte strings: all of length <= 1, then seeded random ones of length <= maxlen;
/// one-shot, split into two updates, and after reset().
fn cmd_hash(a: &Args) -> i32 {
    let seed = a.u64("seed", 1);
    let count = a.usize("count", 1000);
    let maxlen = a.usize("maxlen", 64);
    let mut out = open_out(a.req("out"));
    let mut rng = Rng::new(seed ^ 0xAB1);
    let mut inputs: Vec<Vec<u8>> = vec![vec![]];
    for b in 0..=255u8 {
        inputs.push(vec![b]);
    }
    let count = if let Some(f) = a.get("only") {
        // replay: exactly one byte string (a JSON array of byte values)
        let j: J = serde_json::from_str(&std::fs::read_to_string(f).expect("read --only")).expect("--only json");
        inputs = vec![avro_verif_harness::term::j_bytes(&j)];
        0
    } else {
        count
    };
    for _ in 0..count {
        let n = rng.below(maxlen + 1);
        let mode = rng.below(4);
        inputs.push((0..n).map(|_| match mode { 0 => rng.below(256) as u8, 1 => *rng.pick(&[0u8, 0xff, 0x80, 0x7f, 1]), 2 => 32 + rng.below(95) as u8, _ => rng.next() as u8 }).collect());
    }
    for (idx, b) in inputs.iter().enumerate() {
        let cut = if b.is_empty() { 0 } else { rng.below(b.len() + 1) };
        let r = guarded(|| {
            let mut h = Rabin::new();
            Digest::update(&mut h, b);
            let one = h.finalize().to_vec();
            let mut h2 = Rabin::new();
            Digest::update(&mut h2, &b[..cut]);
            Digest::update(&mut h2, &b[cut..]);
            let two = h2.finalize().to_vec();
            let mut h3 = Rabin::new();
            Digest::update(&mut h3, b"junk before reset");
            Digest::reset(&mut h3);
            Digest::update(&mut h3, b);
            let three = h3.finalize().to_vec();
            (one, two, three, Rabin::digest(b).to_vec())
        });
        let ev = match r {
            Ok((one, two, three, four)) => json!({"ev":"rabin","id":small(idx),"bytes":bytes_j(b),"cut":small(cut),"panic":false,
                "one":bytes_j(&one),"split":bytes_j(&two),"after_reset":bytes_j(&three),"oneshot":bytes_j(&four)}),
            Err(_) => json!({"ev":"rabin","id":small(idx),"bytes":bytes_j(b),"cut":small(cut),"panic":true,"one":[],"split":[],"after_reset":[],"oneshot":[]}),
        };
        writeln!(out, "{ev}").unwrap();
    }
    out.flush().unwrap();
    0
}

fn main() {
    quiet_panics();
    let args = parse_args();
    let rc = match args.cmd.as_str() {
        "gen" => cmd_gen(&args),
        "run" => cmd_run(&args),
        "child" => cmd_child(&args),
        "hash" => cmd_hash(&args),
        other => {
            eprintln!("unknown command {other:?}");
            2
        }
    };
    std::process::exit(rc);
}
