//! avh_c20 — multi-schema parsing executions (property C20).
//!
//! `run --scn FILE --out FILE --runs R [--runs-big R4] --seed S [--pairs P] [--max-perms M] [--threads T]`
//!     every scenario line {form, ins, main} (written forms of spec/MultiParse.tla) is rendered as
//!     Avro schema JSON texts; for EVERY permutation of the input list (up to M = 24 of them, i.e.
//!     all for <= 4 inputs; a seeded sample beyond) `Schema::parse_list`
//!     (form "list") or `Schema::parse_str_with_list` (form "with") is called R times (each call
//!     builds a fresh HashMap = fresh hash seed) under catch_unwind.  Recorded per permutation:
//!     the distinct outcomes with their counts; for "ok" the returned schemas projected to terms
//!     in the order they were returned, and the outcome of `ResolvedSchema::new_with_schemata`.
//!     Then a seeded value is encoded with the schema set obtained from one ordering and decoded
//!     with the corresponding schema obtained from another ordering / another run.
//! `gen --seed S --count N --out FILE`
//!     seeded random scenarios beyond the TLC family (2..5 inputs, deeper nesting).
//!
//! The harness executes and records only; spec/Trace_MultiParse.tla judges.

use apache_avro::Schema;
use apache_avro::reader::datum::GenericDatumReader;
use apache_avro::schema::ResolvedSchema;
use apache_avro::writer::datum::GenericDatumWriter;
use avro_verif_harness::generate::{Rng, value_for};
use avro_verif_harness::term::*;
use avro_verif_harness::{Args, guarded, open_out, parse_args, quiet_panics, read_lines};
use serde_json::{Map, Value as J, json};
use std::collections::HashMap;
use std::io::Write;
use std::panic::AssertUnwindSafe;

// ---------------------------------------------------------------------------------------------
// written forms -> Avro schema JSON
// ---------------------------------------------------------------------------------------------
fn s<'a>(j: &'a J, k: &str) -> &'a str {
    j.get(k).and_then(|x| x.as_str()).unwrap_or("")
}

fn full(ns: &str, n: &str) -> String {
    if ns.is_empty() { n.to_string() } else { format!("{ns}.{n}") }
}

fn render_hdr(obj: &mut Map<String, J>, h: &J) {
    match s(h, "how") {
        "attr" => {
            obj.insert("name".into(), J::from(s(h, "n")));
            obj.insert("namespace".into(), J::from(s(h, "ns")));
        }
        "dotted" => {
            obj.insert("name".into(), J::from(full(s(h, "ns"), s(h, "n"))));
        }
        _ => {
            obj.insert("name".into(), J::from(s(h, "n")));
        }
    }
}

fn render_def(d: &J) -> J {
    let mut obj = Map::new();
    render_hdr(&mut obj, &d["hdr"]);
    match s(d, "k") {
        "record" => {
            obj.insert("type".into(), J::from("record"));
            let fs: Vec<J> = d["fields"]
                .as_array()
                .map(|a| a.as_slice())
                .unwrap_or(&[])
                .iter()
                .enumerate()
                .map(|(i, t)| json!({"name": format!("f{}", i + 1), "type": render_type(t)}))
                .collect();
            obj.insert("fields".into(), J::Array(fs));
        }
        "enum" => {
            obj.insert("type".into(), J::from("enum"));
            obj.insert("symbols".into(), json!(["S0", "S1"]));
        }
        "fixed" => {
            obj.insert("type".into(), J::from("fixed"));
            obj.insert("size".into(), d["size"].clone());
            // convention of this harness: a fixed of size 12 stands for a NAMED LOGICAL type (duration), so that
            // named logical types take part in multi-schema parsing; the model treats it like any named type
            if d["size"].as_u64() == Some(12) {
                obj.insert("logicalType".into(), J::from("duration"));
            }
        }
        "wrap" => {
            obj.insert("type".into(), render_def(&d["inner"]));
        }
        other => panic!("render_def: unknown kind {other}"),
    }
    J::Object(obj)
}

fn render_type(t: &J) -> J {
    match s(t, "k") {
        "prim" => J::from(s(t, "p")),
        "ref" => match s(t, "form") {
            "full" => J::from(full(s(t, "ns"), s(t, "n"))),
            "abs" => J::from(format!(".{}", s(t, "n"))),
            _ => J::from(s(t, "n")),
        },
        "def" => render_def(&t["d"]),
        "array" => json!({"type": "array", "items": render_type(&t["items"])}),
        "opt" => json!(["null", render_type(&t["t"])]),
        other => panic!("render_type: unknown kind {other}"),
    }
}

// ---------------------------------------------------------------------------------------------
// crate Schema -> schema term (spec/AvroSchema.tla shapes; names are full names)
// ---------------------------------------------------------------------------------------------
fn project(sc: &Schema) -> J {
    match sc {
        Schema::Null => json!({"k":"null"}),
        Schema::Boolean => json!({"k":"boolean"}),
        Schema::Int => json!({"k":"int"}),
        Schema::Long => json!({"k":"long"}),
        Schema::Float => json!({"k":"float"}),
        Schema::Double => json!({"k":"double"}),
        Schema::Bytes => json!({"k":"bytes"}),
        Schema::String => json!({"k":"string"}),
        Schema::Array(a) => json!({"k":"array","items":project(&a.items)}),
        Schema::Union(u) => json!({"k":"union","branches":u.variants().iter().map(project).collect::<Vec<_>>()}),
        Schema::Record(r) => json!({"k":"record","name":r.name.fullname(None),
            "fields": r.fields.iter().map(|f| json!({"name":f.name,"type":project(&f.schema)})).collect::<Vec<_>>()}),
        Schema::Enum(e) => json!({"k":"enum","name":e.name.fullname(None),"symbols":e.symbols}),
        Schema::Fixed(f) => json!({"k":"fixed","name":f.name.fullname(None),"size":small(f.size)}),
        Schema::Ref { name } => json!({"k":"ref","name":name.fullname(None)}),
        Schema::Duration(f) => json!({"k":"fixed","name":f.name.fullname(None),"size":small(f.size)}),
        other => json!({"k":"other","text":format!("{other:?}")}),
    }
}

/// fingerprint of everything the crate keeps in a schema (Debug rendering: names, aliases, docs,
/// attributes, lookup tables, ...), so that "identical across orderings" is not limited to what the
/// projection above shows
fn debug_fp(sc: &Schema) -> String {
    let mut h: u64 = 0xcbf29ce484222325;
    for b in format!("{sc:?}").bytes() {
        h ^= b as u64;
        h = h.wrapping_mul(0x100000001b3);
    }
    format!("{h:016x}")
}

fn none_schema_term() -> J {
    json!({"k":"none"})
}

// ---------------------------------------------------------------------------------------------
// executions
// ---------------------------------------------------------------------------------------------
fn permutations(n: usize) -> Vec<Vec<usize>> {
    fn rec(cur: &mut Vec<usize>, used: &mut Vec<bool>, n: usize, out: &mut Vec<Vec<usize>>) {
        if cur.len() == n {
            out.push(cur.clone());
            return;
        }
        for i in 0..n {
            if !used[i] {
                used[i] = true;
                cur.push(i);
                rec(cur, used, n, out);
                cur.pop();
                used[i] = false;
            }
        }
    }
    let mut out = vec![];
    rec(&mut vec![], &mut vec![false; n], n, &mut out);
    out
}

struct Parsed {
    list: Vec<Schema>,
    main: Option<Schema>,
}

enum Outcome {
    Ok(Parsed),
    Err(String),
    Panic(String),
}

fn call(form: &str, texts: &[&String], maintext: &str) -> Outcome {
    let r = guarded(AssertUnwindSafe(|| {
        if form == "with" {
            Schema::parse_str_with_list(maintext, texts.iter()).map(|(m, l)| Parsed { list: l, main: Some(m) })
        } else {
            Schema::parse_list(texts.iter()).map(|l| Parsed { list: l, main: None })
        }
    }));
    match r {
        Ok(Ok(p)) => Outcome::Ok(p),
        Ok(Err(e)) => Outcome::Err(e.to_string()),
        Err(p) => Outcome::Panic(p),
    }
}

fn all_refs(p: &Parsed) -> Vec<&Schema> {
    let mut v: Vec<&Schema> = p.list.iter().collect();
    if let Some(m) = &p.main {
        v.push(m);
    }
    v
}

fn resolved_outcome(p: &Parsed) -> &'static str {
    match guarded(AssertUnwindSafe(|| ResolvedSchema::new_with_schemata(all_refs(p)).map(|_| ()))) {
        Ok(Ok(())) => "ok",
        Ok(Err(_)) => "err",
        Err(_) => "panic",
    }
}

/// `new_with_schemata` resolves in list order (references to later schemas are documented as
/// unsupported), so look for an order in which the whole set resolves.
fn resolvable_order(p: &Parsed) -> Option<Vec<usize>> {
    let refs = all_refs(p);
    let n = refs.len();
    if n > 6 {
        return None;
    }
    for perm in permutations(n) {
        let v: Vec<&Schema> = perm.iter().map(|&i| refs[i]).collect();
        if let Ok(Ok(())) = guarded(AssertUnwindSafe(|| ResolvedSchema::new_with_schemata(v).map(|_| ()))) {
            return Some(perm);
        }
    }
    None
}

/// name -> definition term; returns false when one name has two different definitions
fn collect_term_defs(t: &J, out: &mut HashMap<String, J>) -> bool {
    fn walk(t: &J, out: &mut HashMap<String, J>, ok: &mut bool) {
        match sk(t) {
            "array" => walk(&t["items"], out, ok),
            "union" => t["branches"].as_array().into_iter().flatten().for_each(|b| walk(b, out, ok)),
            "record" | "enum" | "fixed" => {
                let n = t["name"].as_str().unwrap_or("").to_string();
                match out.get(&n) {
                    Some(prev) if prev != t => *ok = false,
                    Some(_) => {}
                    None => {
                        out.insert(n, t.clone());
                    }
                }
                if sk(t) == "record" {
                    t["fields"].as_array().into_iter().flatten().for_each(|f| walk(&f["type"], out, ok));
                }
            }
            _ => {}
        }
    }
    let mut ok = true;
    walk(t, out, &mut ok);
    ok
}

/// A conforming value for a schema term; `None` when the type has no value within the fuel
/// (e.g. a record that contains itself directly).  Leaves come from the shared generator.
fn value_gen(rng: &mut Rng, t: &J, env: &HashMap<String, J>, fuel: usize) -> Option<J> {
    match sk(t) {
        "ref" => {
            if fuel == 0 {
                return None;
            }
            let target = env.get(t["name"].as_str()?)?.clone();
            value_gen(rng, &target, env, fuel - 1)
        }
        "record" => {
            let mut fs = vec![];
            for f in t["fields"].as_array()? {
                fs.push(json!([f["name"], value_gen(rng, &f["type"], env, fuel)?]));
            }
            Some(json!({"t":"record","fields":fs}))
        }
        "array" => {
            let n = rng.below(3);
            let mut items = vec![];
            for _ in 0..n {
                if let Some(v) = value_gen(rng, &t["items"], env, fuel.saturating_sub(1)) {
                    items.push(v);
                }
            }
            Some(json!({"t":"array","items":items}))
        }
        "union" => {
            let bs = t["branches"].as_array()?;
            let start = rng.below(bs.len());
            for k in 0..bs.len() {
                let i = (start + k) % bs.len();
                if let Some(v) = value_gen(rng, &bs[i], env, fuel.saturating_sub(1)) {
                    return Some(json!({"t":"union","i":small(i),"v":v}));
                }
            }
            None
        }
        "other" | "none" => None,
        // (harness convention: a fixed of size 12 is a duration; the model's schema term calls it a fixed, so no
        // datum is exchanged for schemas that contain it -- the parse-level clauses are what it is there for)
        "fixed" if t["size"].as_u64() == Some(12) => None,
        _ => Some(value_for(rng, t, env, 1)),
    }
}

/// Does the schema term have a finite value?  (A record that contains itself directly has none;
/// decoding with such a schema recurses without consuming input and overflows the stack of the
/// crate's decoder -- the harness must not walk into that.)
fn inhabited(t: &J, env: &HashMap<String, J>, open: &mut Vec<String>) -> bool {
    match sk(t) {
        "ref" => {
            let Some(n) = t["name"].as_str() else { return false };
            if open.iter().any(|x| x == n) {
                return false;
            }
            match env.get(n) {
                Some(target) => {
                    let target = target.clone();
                    inhabited(&target, env, open)
                }
                None => false,
            }
        }
        "record" => {
            let n = t["name"].as_str().unwrap_or("").to_string();
            if open.iter().any(|x| *x == n) {
                return false;
            }
            open.push(n);
            let r = t["fields"].as_array().map(|fs| fs.iter().all(|f| inhabited(&f["type"], env, open))).unwrap_or(false);
            open.pop();
            r
        }
        "union" => t["branches"].as_array().map(|bs| bs.iter().any(|b| inhabited(b, env, open))).unwrap_or(false),
        "other" | "none" => false,
        _ => true,
    }
}

struct PermRuns {
    perm: Vec<usize>,
    first_ok: Option<Parsed>,
    last_ok: Option<Parsed>,
}

fn one_based(p: &[usize]) -> J {
    J::Array(p.iter().map(|x| small(x + 1)).collect())
}

/// schema of canonical input `i` (0-based; `n` = the main schema) in the result of permutation `perm`
fn pick_schema<'a>(p: &'a Parsed, perm: &[usize], i: usize) -> Option<&'a Schema> {
    if i == perm.len() {
        return p.main.as_ref();
    }
    let pos = perm.iter().position(|&x| x == i)?;
    p.list.get(pos)
}

fn datum_exchange(a: &Parsed, pa: &[usize], b: &Parsed, pb: &[usize], rng: &mut Rng, out: &mut Vec<J>) {
    let (Some(oa), Some(ob)) = (resolvable_order(a), resolvable_order(b)) else { return };
    let refs_a = all_refs(a);
    let refs_b = all_refs(b);
    // a name with two different definitions: which one the crate binds is not the harness' call
    let mut env = HashMap::new();
    let mut unique = true;
    for sc in &refs_a {
        unique &= collect_term_defs(&project(sc), &mut env);
    }
    let mut env_b = HashMap::new();
    for sc in &refs_b {
        unique &= collect_term_defs(&project(sc), &mut env_b);
    }
    if !unique {
        return;
    }
    let n = pa.len();
    let upto = if a.main.is_some() { n + 1 } else { n };
    for i in 0..upto {
        let (Some(sa), Some(sb)) = (pick_schema(a, pa, i), pick_schema(b, pb, i)) else { continue };
        let term = project(sa);
        // Exchange only between schemas that look alike in the projection (a difference there is
        // already on record in `obs`); decoding bytes with an unrelated recursive schema can run the
        // crate's decoder out of stack, which would take the harness down with it.
        if project(sb) != term || env != env_b || !inhabited(&term, &env, &mut vec![]) {
            continue;
        }
        let v = match guarded(AssertUnwindSafe(|| value_gen(rng, &term, &env, 4))) {
            Ok(Some(v)) => v,
            _ => continue,
        };
        let val = vterm_to_value(&v);
        let enc = guarded(AssertUnwindSafe(|| -> Result<Vec<u8>, String> {
            let rs = ResolvedSchema::new_with_schemata(oa.iter().map(|&k| refs_a[k]).collect()).map_err(|e| e.to_string())?;
            let w = GenericDatumWriter::builder(sa).resolved_schemata(rs).build().map_err(|e| e.to_string())?;
            let mut buf = Vec::new();
            w.write_value_ref(&mut buf, &val).map_err(|e| e.to_string())?;
            Ok(buf)
        }));
        let mut panic = false;
        let (enc_ok, wire) = match enc {
            Ok(Ok(w)) => (true, w),
            Ok(Err(_)) => (false, vec![]),
            Err(_) => {
                panic = true;
                (false, vec![])
            }
        };
        let mut dec_ok = false;
        let mut dec_v = none_term();
        if enc_ok {
            let dec = guarded(AssertUnwindSafe(|| -> Result<apache_avro::types::Value, String> {
                let rs = ResolvedSchema::new_with_schemata(ob.iter().map(|&k| refs_b[k]).collect()).map_err(|e| e.to_string())?;
                let r = GenericDatumReader::builder(sb).resolved_writer_schemata(rs).build().map_err(|e| e.to_string())?;
                let mut slice: &[u8] = &wire;
                let v = r.read_value(&mut slice).map_err(|e| e.to_string())?;
                if !slice.is_empty() {
                    return Err("trailing bytes".into());
                }
                Ok(v)
            }));
            match dec {
                Ok(Ok(v)) => {
                    dec_ok = true;
                    dec_v = value_to_vterm(&v);
                }
                Ok(Err(_)) => {}
                Err(_) => panic = true,
            }
        }
        out.push(json!({"i": small(if i == n { 0 } else { i + 1 }), "pa": one_based(pa), "pb": one_based(pb), "v": v,
            "enc_ok": enc_ok, "wire": bytes_j(&wire), "dec_ok": dec_ok, "dec": dec_v, "panic": panic}));
    }
}

/// all permutations, or (beyond `max`) the identity, the reversal and seeded random ones
fn chosen_permutations(n: usize, max: usize, rng: &mut Rng) -> Vec<Vec<usize>> {
    let all = permutations(n);
    if all.len() <= max {
        return all;
    }
    let mut out: Vec<Vec<usize>> = vec![all[0].clone(), all[all.len() - 1].clone()];
    while out.len() < max {
        let c = &all[rng.below(all.len())];
        if !out.contains(c) {
            out.push(c.clone());
        }
    }
    out
}

fn execute(scn: &J, id: usize, runs: usize, runs_big: usize, pairs: usize, max_perms: usize, seed: u64) -> J {
    let form = s(scn, "form").to_string();
    let ins: Vec<J> = scn["ins"].as_array().cloned().unwrap_or_default();
    // 24 and more permutations: fewer runs per permutation
    let runs = if ins.len() >= 4 { runs_big } else { runs };
    let texts: Vec<String> = ins.iter().map(|d| serde_json::to_string(&render_def(d)).unwrap()).collect();
    let maintext = if form == "with" { serde_json::to_string(&render_type(&scn["main"])).unwrap() } else { String::new() };
    let mut rng = Rng::new(seed ^ ((id as u64 + 1).wrapping_mul(0x9E37_79B9)));
    let mut obs: Vec<J> = vec![];
    let mut perms: Vec<PermRuns> = vec![];
    for perm in chosen_permutations(ins.len(), max_perms, &mut rng) {
        let tx: Vec<&String> = perm.iter().map(|&i| &texts[i]).collect();
        let mut seen: Vec<(String, J, usize)> = vec![];
        let mut pr = PermRuns { perm: perm.clone(), first_ok: None, last_ok: None };
        for _ in 0..runs {
            let o = call(&form, &tx, &maintext);
            let rec = match &o {
                Outcome::Ok(p) => json!({"status":"ok",
                    "res": p.list.iter().map(project).collect::<Vec<_>>(),
                    "main": p.main.as_ref().map(project).unwrap_or_else(none_schema_term),
                    "dbg": p.list.iter().map(debug_fp).collect::<Vec<_>>(),
                    "dbgmain": p.main.as_ref().map(debug_fp).unwrap_or_default(),
                    "resolved": resolved_outcome(p), "err": ""}),
                Outcome::Err(e) => json!({"status":"err","res":[],"main":none_schema_term(),"dbg":[],"dbgmain":"","resolved":"na","err":e}),
                Outcome::Panic(e) => json!({"status":"panic","res":[],"main":none_schema_term(),"dbg":[],"dbgmain":"","resolved":"na","err":e}),
            };
            let key = rec.to_string();
            match seen.iter_mut().find(|x| x.0 == key) {
                Some(x) => x.2 += 1,
                None => seen.push((key, rec, 1)),
            }
            if let Outcome::Ok(p) = o {
                if pr.first_ok.is_none() {
                    pr.first_ok = Some(p);
                } else {
                    pr.last_ok = Some(p);
                }
            }
        }
        for (_, mut rec, n) in seen {
            rec["perm"] = one_based(&perm);
            rec["n"] = small(n);
            obs.push(rec);
        }
        perms.push(pr);
    }
    // datum exchange: first ok result of the first ok permutation against the last ok result of others
    let mut dat: Vec<J> = vec![];
    let oks: Vec<&PermRuns> = perms.iter().filter(|p| p.first_ok.is_some()).collect();
    if let Some(a) = oks.first() {
        let mut partners: Vec<&PermRuns> = vec![];
        if oks.len() > 1 {
            partners.push(oks[oks.len() - 1]);
        }
        while partners.len() < pairs.min(oks.len()) {
            let c = oks[rng.below(oks.len())];
            if !partners.iter().any(|p| p.perm == c.perm) {
                partners.push(c);
            }
        }
        for b in partners {
            let pb = b.last_ok.as_ref().or(b.first_ok.as_ref()).unwrap();
            datum_exchange(a.first_ok.as_ref().unwrap(), &a.perm, pb, &b.perm, &mut rng, &mut dat);
        }
    }
    json!({"ev":"mp","id":small(id),"form":form,"ins":ins,"main":scn["main"],
           "texts":texts,"maintext":maintext,"runs":small(runs),"obs":obs,"dat":dat})
}

fn cmd_run(a: &Args) -> i32 {
    let lines = read_lines(a.req("scn"));
    let runs = a.usize("runs", 20);
    let runs_big = a.usize("runs-big", runs);
    let pairs = a.usize("pairs", 2);
    let max_perms = a.usize("max-perms", 24);
    let seed = a.u64("seed", 1);
    let threads = a.usize("threads", 4).max(1);
    let scns: Vec<J> = match lines.iter().map(|l| serde_json::from_str(l)).collect::<Result<_, _>>() {
        Ok(v) => v,
        Err(e) => {
            eprintln!("bad scenario line: {e}");
            return 2;
        }
    };
    let mut results: Vec<Option<String>> = vec![None; scns.len()];
    let chunks: Vec<Vec<(usize, String)>> = std::thread::scope(|sc| {
        let hs: Vec<_> = (0..threads)
            .map(|t| {
                let scns = &scns;
                sc.spawn(move || {
                    let mut out = vec![];
                    let mut i = t;
                    while i < scns.len() {
                        out.push((i, execute(&scns[i], i, runs, runs_big, pairs, max_perms, seed).to_string()));
                        i += threads;
                    }
                    out
                })
            })
            .collect();
        hs.into_iter().map(|h| h.join().expect("worker")).collect()
    });
    for c in chunks {
        for (i, line) in c {
            results[i] = Some(line);
        }
    }
    let mut out = open_out(a.req("out"));
    for r in results {
        writeln!(out, "{}", r.unwrap()).unwrap();
    }
    out.flush().unwrap();
    0
}

// ---------------------------------------------------------------------------------------------
// seeded random scenarios (beyond the TLC family)
// ---------------------------------------------------------------------------------------------
const NAMES: [&str; 6] = ["A", "B", "C", "D", "N", "E"];
const SPACES: [&str; 3] = ["", "p", "q"];
const PRIMS: [&str; 5] = ["int", "long", "string", "boolean", "bytes"];

struct Gen<'r> {
    rng: &'r mut Rng,
    /// (namespace, name) of the inputs of the set under construction
    tops: Vec<(String, String)>,
}

impl Gen<'_> {
    fn hdr_for(&mut self, ns: &str, n: &str, encl: &str) -> J {
        // a written header that denotes (ns, n) inside `encl`
        if ns == encl && self.rng.chance(2, 3) {
            json!({"n": n, "how": "none", "ns": ""})
        } else if !ns.is_empty() && self.rng.chance(1, 3) {
            json!({"n": n, "how": "dotted", "ns": ns})
        } else {
            json!({"n": n, "how": "attr", "ns": ns})
        }
    }
    fn ref_to(&mut self, ns: &str, n: &str, encl: &str) -> J {
        if ns == encl && self.rng.chance(3, 4) {
            json!({"k":"ref","form":"short","ns":"","n":n})
        } else if ns.is_empty() {
            if encl.is_empty() { json!({"k":"ref","form":"short","ns":"","n":n}) } else { json!({"k":"ref","form":"abs","ns":"","n":n}) }
        } else {
            json!({"k":"ref","form":"full","ns":ns,"n":n})
        }
    }
    fn ty(&mut self, depth: usize, encl: &str) -> J {
        let r = self.rng.below(100);
        if r < 28 {
            json!({"k":"prim","p": *self.rng.pick(&PRIMS)})
        } else if r < 66 {
            if self.rng.chance(5, 6) && !self.tops.is_empty() {
                let (ns, n) = self.tops[self.rng.below(self.tops.len())].clone();
                self.ref_to(&ns, &n, encl)
            } else {
                // any name: possibly nested somewhere, possibly dangling
                let n = if self.rng.chance(1, 6) { "X" } else { *self.rng.pick(&NAMES) };
                let ns = (*self.rng.pick(&SPACES)).to_string();
                self.ref_to(&ns, n, encl)
            }
        } else if r < 82 && depth > 0 {
            let n = *self.rng.pick(&NAMES);
            let ns = if self.rng.chance(2, 3) { encl.to_string() } else { (*self.rng.pick(&SPACES)).to_string() };
            json!({"k":"def","d": self.def(&ns, n, encl, depth - 1, false)})
        } else if r < 91 {
            json!({"k":"array","items": self.ty(depth, encl)})
        } else {
            let inner = self.ty(depth, encl);
            // a union must not nest a union
            if inner["k"] == "opt" { inner } else { json!({"k":"opt","t": inner}) }
        }
    }
    fn def(&mut self, ns: &str, n: &str, encl: &str, depth: usize, top: bool) -> J {
        let hdr = self.hdr_for(ns, n, encl);
        let r = self.rng.below(100);
        let lim = if top { 72 } else { 40 };
        if r < lim {
            let nf = 1 + self.rng.below(3);
            let fields: Vec<J> = (0..nf).map(|_| self.ty(depth, ns)).collect();
            json!({"k":"record","hdr":hdr,"fields":fields})
        } else if r < lim + (100 - lim) * 2 / 3 {
            json!({"k":"fixed","hdr":hdr,"size": 1 + self.rng.below(3)})
        } else {
            json!({"k":"enum","hdr":hdr})
        }
    }
}

fn cmd_gen(a: &Args) -> i32 {
    let seed = a.u64("seed", 1);
    let count = a.usize("count", 100);
    let mut out = open_out(a.req("out"));
    let mut rng = Rng::new(seed ^ 0xC20);
    for _ in 0..count {
        let n = 2 + rng.below(4);
        let mut tops: Vec<(String, String)> = vec![];
        for _ in 0..n {
            // mostly distinct names; a top-level duplicate now and then
            for _try in 0..4 {
                let c = ((*rng.pick(&SPACES)).to_string(), (*rng.pick(&NAMES)).to_string());
                if !tops.contains(&c) || rng.chance(1, 12) {
                    tops.push(c);
                    break;
                }
            }
        }
        let with = rng.chance(1, 4);
        let mut g = Gen { rng: &mut rng, tops: tops.clone() };
        let mut ins: Vec<J> = vec![];
        for (ns, nm) in &tops {
            let mut d = g.def(ns, nm, "", 2, true);
            if g.rng.chance(1, 40) {
                // only the plain form {"name":Y,"type":{"name":X,..}} (names without namespaces)
                let outer = if g.rng.chance(1, 2) { nm.clone() } else { "Y".to_string() };
                d["hdr"] = json!({"n": nm, "how": "none", "ns": ""});
                ins.push(json!({"k":"wrap","hdr":{"n":outer,"how":"none","ns":""},"inner":d}));
            } else {
                ins.push(d);
            }
        }
        let main = if with {
            if g.rng.chance(1, 2) {
                let nm = *g.rng.pick(&["M", "A", "N"]);
                let ns = (*g.rng.pick(&SPACES)).to_string();
                json!({"k":"def","d": g.def(&ns, nm, "", 2, true)})
            } else {
                g.ty(1, "")
            }
        } else {
            json!({"k":"prim","p":"null"})
        };
        writeln!(out, "{}", json!({"form": if with {"with"} else {"list"}, "ins": ins, "main": main})).unwrap();
    }
    out.flush().unwrap();
    0
}

fn main() {
    quiet_panics();
    let args = parse_args();
    let rc = match args.cmd.as_str() {
        "run" => cmd_run(&args),
        "gen" => cmd_gen(&args),
        other => {
            eprintln!("unknown command {other:?}");
            2
        }
    };
    std::process::exit(rc);
}
