use apache_avro::Schema;
use std::io::BufRead;
fn main() {
    std::panic::set_hook(Box::new(|_| {}));
    for line in std::io::stdin().lock().lines() {
        let line = line.unwrap();
        if line.trim().is_empty() { continue; }
        println!("IN   {line}");
        match std::panic::catch_unwind(|| Schema::parse_str(&line)) {
            Ok(Ok(s)) => {
                println!("JSON {}", serde_json::to_string(&s).unwrap_or_else(|e| format!("ERR {e}")));
                match std::panic::catch_unwind(|| s.canonical_form()) {
                    Ok(c) => println!("PCF  {c}"),
                    Err(_) => println!("PCF  PANIC"),
                }
                println!("DBG  {s:?}");
            }
            Ok(Err(e)) => println!("ERR  {e}"),
            Err(_) => println!("PANIC"),
        }
    }
}
