//! avh_c18 — single-object writers/readers (C18).
//!
//! `run --scn FILE --out FILE [--seed S]`: scenario lines are (schema term, value term) pairs as
//! for datum-run; consecutive lines with the same schema form one writer history
//!   ok v1, rejected, ok v2, sink-failure v3, ok v4, encode-failure, ok v1 ...
//! on ONE GenericSingleObjectWriter instance.  Every successful message is read back by the
//! generic reader; the first message of each history is also damaged (every header bit flipped,
//! every truncation of the header) and offered to the readers.  A typed history on
//! SpecificSingleObjectWriter / SpecificSingleObjectReader for a derived type is added.

use apache_avro::types::Value;
use apache_avro::{AvroSchema, GenericSingleObjectReader, GenericSingleObjectWriter, Schema,
                  SpecificSingleObjectReader, SpecificSingleObjectWriter};
use avro_verif_harness::term::*;
use avro_verif_harness::{Args, guarded, open_out, parse_args, quiet_panics, read_lines};
use serde::{Deserialize, Serialize};
use serde_json::{Value as J, json};
use std::io::Write;

struct FailSink;
impl Write for FailSink {
    fn write(&mut self, _b: &[u8]) -> std::io::Result<usize> {
        Err(std::io::Error::other("harness: failing sink"))
    }
    fn flush(&mut self) -> std::io::Result<()> {
        Ok(())
    }
}

#[derive(Serialize, Deserialize, AvroSchema, Clone, PartialEq, Debug)]
struct Msg { id: i64, name: String, tags: Vec<String>, score: Option<f64> }
impl From<Msg> for Value {
    fn from(m: Msg) -> Value {
        Value::Record(vec![
            ("id".into(), Value::Long(m.id)), ("name".into(), Value::String(m.name)),
            ("tags".into(), Value::Array(m.tags.into_iter().map(Value::String).collect())),
            ("score".into(), match m.score { None => Value::Union(0, Box::new(Value::Null)), Some(x) => Value::Union(1, Box::new(Value::Double(x))) }),
        ])
    }
}
impl From<Value> for Msg {
    fn from(v: Value) -> Msg {
        apache_avro::from_value::<Msg>(&v).unwrap_or(Msg { id: i64::MIN, name: String::new(), tags: vec![], score: None })
    }
}
fn msg_term() -> J {
    json!({"k":"record","name":"Msg","fields":[
        {"name":"id","type":{"k":"long"}},{"name":"name","type":{"k":"string"}},
        {"name":"tags","type":{"k":"array","items":{"k":"string"}}},
        {"name":"score","type":{"k":"union","branches":[{"k":"null"},{"k":"double"}]}}]})
}
fn msgs() -> Vec<Msg> {
    vec![Msg { id: 1, name: "a".into(), tags: vec![], score: None },
         Msg { id: -(1 << 40), name: "a much longer name than before €".into(), tags: vec!["x".into(), "yz".into(), "".into()], score: Some(-0.0) },
         Msg { id: 0, name: "".into(), tags: vec!["t".into()], score: Some(f64::NAN) }]
}

struct Ctx<'a> { out: &'a mut Box<dyn Write>, id: usize }
impl Ctx<'_> {
    fn emit(&mut self, mut ev: J) {
        ev["id"] = small(self.id);
        self.id += 1;
        writeln!(self.out, "{ev}").unwrap();
    }
}

fn damage_events(ctx: &mut Ctx, s: &J, canon: &[u8], msg: &[u8], schema: &Schema, typed: bool) {
    let reader = GenericSingleObjectReader::builder().schema(schema.clone()).build().unwrap();
    let typed_reader = if typed { Some(SpecificSingleObjectReader::<Msg>::new().unwrap()) } else { None };
    let mut variants: Vec<(String, Vec<u8>)> = vec![("intact".into(), msg.to_vec())];
    for bit in 0..80 {
        let mut d = msg.to_vec();
        d[bit / 8] ^= 1 << (bit % 8);
        variants.push((format!("flip{bit}"), d));
    }
    for k in 0..10 {
        variants.push((format!("trunc{k}"), msg[..k].to_vec()));
    }
    for (what, d) in variants {
        let g = guarded(std::panic::AssertUnwindSafe(|| { let mut sl: &[u8] = &d; reader.read_value(&mut sl).is_ok() }));
        let t = match &typed_reader {
            Some(tr) => guarded(std::panic::AssertUnwindSafe(|| { let mut sl: &[u8] = &d; tr.read(&mut sl).is_ok() || { let mut sl2: &[u8] = &d; tr.read_from_value(&mut sl2).map(|m| m.id != i64::MIN).unwrap_or(false) } })),
            None => Ok(false),
        };
        ctx.emit(json!({"ev":"so-damage","s":s,"canon":bytes_j(canon),"msg":bytes_j(msg),"damaged":bytes_j(&d),"what":what,
                        "generic_ok": matches!(g, Ok(true)), "typed_ok": matches!(t, Ok(true)), "panic": g.is_err() || t.is_err()}));
    }
}

fn generic_history(ctx: &mut Ctx, s: &J, vals: &[J], hist: usize) {
    let text = render_schema_text(s, (hist % 3) as u8);
    let Ok(Ok(schema)) = guarded(|| Schema::parse_str(&text)) else { return };
    let canon = schema.canonical_form().into_bytes();
    let Ok(Ok(mut writer)) = guarded(|| GenericSingleObjectWriter::new_with_capacity(&schema, 16)) else { return };
    let reader = GenericSingleObjectReader::builder().schema(schema.clone()).build().unwrap();
    // a value that validation rejects under (almost) any schema
    let reject = Value::Duration(apache_avro::Duration::new(apache_avro::Months::new(1), apache_avro::Days::new(1), apache_avro::Millis::new(1)));
    let rejectable = !reject.validate(&schema);
    let mut plan: Vec<(&str, usize)> = vec![];
    for (i, _) in vals.iter().enumerate() {
        plan.push(("ok", i));
        match i % 3 { 0 if rejectable => plan.push(("rejected", i)), 1 => plan.push(("sinkfail", i)), _ => {} }
    }
    plan.push(("ok", 0));
    let mut first_msg: Option<Vec<u8>> = None;
    for (step, (kind, vi)) in plan.iter().enumerate() {
        let vterm = &vals[*vi];
        let value = if *kind == "rejected" { reject.clone() } else { vterm_to_value(vterm) };
        let mut sink: Vec<u8> = vec![];
        let r = if *kind == "sinkfail" {
            guarded(std::panic::AssertUnwindSafe(|| writer.write_value_ref(&value, &mut FailSink)))
        } else {
            guarded(std::panic::AssertUnwindSafe(|| writer.write_value_ref(&value, &mut sink)))
        };
        let (res, returned, panicked) = match &r { Ok(Ok(n)) => ("ok", *n, false), Ok(Err(_)) => ("err", 0, false), Err(_) => ("err", 0, true) };
        let rg = if res == "ok" {
            match guarded(std::panic::AssertUnwindSafe(|| { let mut sl: &[u8] = &sink; reader.read_value(&mut sl) })) {
                Ok(Ok(v)) => json!({"ok":true,"v":value_to_vterm(&v)}),
                _ => json!({"ok":false,"v":none_term()}),
            }
        } else { json!({"ok":false,"v":none_term()}) };
        ctx.emit(json!({"ev":"so-write","hist":small(hist),"step":small(step),"expect":kind,"s":s,"canon":bytes_j(&canon),
                        "v": if *kind == "rejected" { none_term() } else { vterm.clone() },
                        "res":res,"panic":panicked,"counted":true,"returned":small(returned),"msg":bytes_j(&sink),
                        "read_generic":rg,"typed":false,"read_typed_ok":false}));
        if res == "ok" && first_msg.is_none() && sink.len() >= 10 {
            first_msg = Some(sink.clone());
        }
    }
    if let Some(m) = first_msg {
        // always where the datum is empty (message = header only: a reader that gets past a short header
        // finds a complete datum), else for a quarter of the histories
        if hist % 4 == 0 || m.len() == 10 {
            damage_events(ctx, s, &canon, &m, &schema, false);
        }
    }
}

/// The writer/reader pair with a caller-supplied header builder (AWS Glue: 03 00 + schema UUID).
fn glue_history(ctx: &mut Ctx, hist: usize) {
    use apache_avro::headers::{GlueSchemaUuidHeader, HeaderBuilder};
    let s = json!({"k":"union","branches":[{"k":"null"},{"k":"string"},{"k":"long"}]});
    let schema = Schema::parse_str(r#"["null","string","long"]"#).unwrap();
    let uuid = apache_avro::Uuid::from_bytes([0x10, 0x32, 0x54, 0x76, 0x98, 0xba, 0xdc, 0xfe, 1, 2, 3, 4, 5, 6, 7, 8]);
    let hb = GlueSchemaUuidHeader::from_uuid(uuid);
    let Ok(Ok(mut writer)) = guarded(|| GenericSingleObjectWriter::new_with_capacity_and_header_builder(&schema, 8, &hb)) else { return };
    let reader = GenericSingleObjectReader::builder().schema(schema.clone()).header(hb.build_header()).build().unwrap();
    let vals = [Value::Union(1, Box::new(Value::String("a rather long first message".into()))), Value::Union(0, Box::new(Value::Null)),
                Value::Union(2, Box::new(Value::Long(-1))), Value::Union(1, Box::new(Value::String("x".into())))];
    for (step, v) in vals.iter().enumerate() {
        if step == 2 {
            let _ = guarded(std::panic::AssertUnwindSafe(|| writer.write_value_ref(v, &mut FailSink)));
        }
        let mut sink: Vec<u8> = vec![];
        let r = guarded(std::panic::AssertUnwindSafe(|| writer.write_value_ref(v, &mut sink)));
        let (res, returned, panicked) = match &r { Ok(Ok(n)) => ("ok", *n, false), Ok(Err(_)) => ("err", 0, false), Err(_) => ("err", 0, true) };
        let rg = match guarded(std::panic::AssertUnwindSafe(|| { let mut sl: &[u8] = &sink; reader.read_value(&mut sl) })) {
            Ok(Ok(x)) => json!({"ok":true,"v":value_to_vterm(&x)}),
            _ => json!({"ok":false,"v":none_term()}),
        };
        // a reader expecting another UUID must refuse the message
        let other = GenericSingleObjectReader::builder().schema(schema.clone())
            .header(GlueSchemaUuidHeader::from_uuid(apache_avro::Uuid::from_bytes([9; 16])).build_header()).build().unwrap();
        let foreign_ok = matches!(guarded(std::panic::AssertUnwindSafe(|| { let mut sl: &[u8] = &sink; other.read_value(&mut sl).is_ok() })), Ok(true));
        ctx.emit(json!({"ev":"so-glue","hist":small(hist),"step":small(step),"s":s,"uuid":bytes_j(uuid.as_bytes()),"v":value_to_vterm(v),
                        "res":res,"panic":panicked,"returned":small(returned),"msg":bytes_j(&sink),"read_generic":rg,"foreign_ok":foreign_ok}));
    }
}

fn typed_history(ctx: &mut Ctx, hist: usize) {
    let s = msg_term();
    let schema = Msg::get_schema();
    let canon = schema.canonical_form().into_bytes();
    let writer = SpecificSingleObjectWriter::<Msg>::new().unwrap();
    let treader = SpecificSingleObjectReader::<Msg>::new().unwrap();
    let greader = GenericSingleObjectReader::builder().schema(schema.clone()).build().unwrap();
    let ms = msgs();
    let mut first: Option<Vec<u8>> = None;
    let mut step = 0;
    for round in 0..2 {
        for (i, m) in ms.iter().enumerate() {
            for api in ["write_value", "write_ref"] {
                // a failing sink in between
                if (i + round) % 2 == 1 {
                    let r = guarded(std::panic::AssertUnwindSafe(|| if api == "write_value" { writer.write_value(m.clone(), &mut FailSink) } else { writer.write_ref(m, &mut FailSink) }));
                    ctx.emit(json!({"ev":"so-write","hist":small(hist),"step":small(step),"expect":"sinkfail","s":s,"canon":bytes_j(&canon),"v":none_term(),
                                    "res": if matches!(r, Ok(Ok(_))) { "ok" } else { "err" }, "panic": r.is_err(), "counted":false,"returned":0,"msg":[],
                                    "read_generic":{"ok":false,"v":none_term()},"typed":true,"read_typed_ok":false}));
                    step += 1;
                }
                let mut sink: Vec<u8> = vec![];
                let r = guarded(std::panic::AssertUnwindSafe(|| if api == "write_value" { writer.write_value(m.clone(), &mut sink) } else { writer.write_ref(m, &mut sink) }));
                let (res, returned, panicked) = match &r { Ok(Ok(n)) => ("ok", *n, false), Ok(Err(_)) => ("err", 0, false), Err(_) => ("err", 0, true) };
                let vterm = value_to_vterm(&Value::from(m.clone()));
                let rg = match guarded(std::panic::AssertUnwindSafe(|| { let mut sl: &[u8] = &sink; greader.read_value(&mut sl) })) {
                    Ok(Ok(v)) => json!({"ok":true,"v":value_to_vterm(&v)}),
                    _ => json!({"ok":false,"v":none_term()}),
                };
                let same = |a: &Msg, b: &Msg| a.id == b.id && a.name == b.name && a.tags == b.tags
                    && a.score.map(f64::to_bits) == b.score.map(f64::to_bits);
                let rt = guarded(std::panic::AssertUnwindSafe(|| {
                    let mut sl: &[u8] = &sink;
                    let a = treader.read(&mut sl).map(|x| same(&x, m)).unwrap_or(false);
                    let mut sl2: &[u8] = &sink;
                    let b = treader.read_from_value(&mut sl2).map(|x| same(&x, m)).unwrap_or(false);
                    a && b
                }));
                ctx.emit(json!({"ev":"so-write","hist":small(hist),"step":small(step),"expect":"ok","s":s,"canon":bytes_j(&canon),"v":vterm,
                                "res":res,"panic":panicked,"counted":true,"returned":small(returned),"msg":bytes_j(&sink),
                                "read_generic":rg,"typed":true,"read_typed_ok":matches!(rt, Ok(true)),"api":api}));
                step += 1;
                if res == "ok" && first.is_none() { first = Some(sink.clone()); }
            }
        }
    }
    if let Some(m) = first {
        damage_events(ctx, &s, &canon, &m, &schema, true);
    }
}

/// Two DIFFERENT types with the same identifier (sibling blocks of one function: `std::any::type_name` is the same
/// for both), different schemas, used one after the other: each typed writer/reader must carry the header of ITS
/// schema.
macro_rules! same_named_event {
    ($ctx:expr, $hist:expr, $step:expr, $term:expr, { $($field:ident : $ty:ident = $val:expr),* }, $value:expr) => {{
        #[derive(Serialize, Deserialize, AvroSchema, Clone, PartialEq, Debug)]
        struct Event { $($field: $ty),* }
        let schema = Event::get_schema();
        let canon = schema.canonical_form().into_bytes();
        let m = Event { $($field: $val),* };
        let mut sink: Vec<u8> = vec![];
        let r = guarded(std::panic::AssertUnwindSafe(|| SpecificSingleObjectWriter::<Event>::new().and_then(|w| w.write_ref(&m, &mut sink))));
        let (res, returned, panicked) = match &r { Ok(Ok(n)) => ("ok", *n, false), Ok(Err(_)) => ("err", 0, false), Err(_) => ("err", 0, true) };
        let rg = match guarded(std::panic::AssertUnwindSafe(|| {
            let rd = GenericSingleObjectReader::builder().schema(schema.clone()).build()?;
            let mut sl: &[u8] = &sink;
            rd.read_value(&mut sl)
        })) {
            Ok(Ok(v)) => json!({"ok":true,"v":value_to_vterm(&v)}),
            _ => json!({"ok":false,"v":none_term()}),
        };
        let rt = guarded(std::panic::AssertUnwindSafe(|| {
            let rd = SpecificSingleObjectReader::<Event>::new()?;
            let mut sl: &[u8] = &sink;
            rd.read(&mut sl).map(|x| x == m)
        }));
        $ctx.emit(json!({"ev":"so-write","hist":small($hist),"step":small($step),"expect":"ok","s":$term,"canon":bytes_j(&canon),
                         "v":value_to_vterm(&$value),"res":res,"panic":panicked,"counted":true,"returned":small(returned),"msg":bytes_j(&sink),
                         "read_generic":rg,"typed":true,"read_typed_ok":matches!(rt, Ok(Ok(true))),"api":"write_ref-same-named-type"}));
        sink
    }};
}

fn same_named_types(ctx: &mut Ctx, hist: usize) {
    let t1 = json!({"k":"record","name":"Event","fields":[{"name":"id","type":{"k":"long"}}]});
    let t2 = json!({"k":"record","name":"Event","fields":[{"name":"id","type":{"k":"long"}},{"name":"source","type":{"k":"string"}}]});
    let v1 = Value::Record(vec![("id".into(), Value::Long(7))]);
    let v2 = Value::Record(vec![("id".into(), Value::Long(8)), ("source".into(), Value::String("sensor".into()))]);
    let _a = same_named_event!(ctx, hist, 0, t1, { id: i64 = 7 }, v1);
    let _b = same_named_event!(ctx, hist, 1, t2, { id: i64 = 8, source: String = "sensor".to_string() }, v2);
    // and the first one again, after the second
    let v1b = Value::Record(vec![("id".into(), Value::Long(9))]);
    let t1b = json!({"k":"record","name":"Event","fields":[{"name":"id","type":{"k":"long"}}]});
    let _c = same_named_event!(ctx, hist, 2, t1b, { id: i64 = 9 }, v1b);
}

fn cmd_run(a: &Args) -> i32 {
    let lines = read_lines(a.req("scn"));
    let mut out = open_out(a.req("out"));
    let mut ctx = Ctx { out: &mut out, id: 0 };
    // group consecutive scenarios by schema
    let mut groups: Vec<(J, Vec<J>)> = vec![];
    for l in &lines {
        let j: J = serde_json::from_str(l).expect("scenario json");
        match groups.last_mut() {
            Some((s, vs)) if *s == j["s"] && vs.len() < 5 => vs.push(j["v"].clone()),
            _ => groups.push((j["s"].clone(), vec![j["v"].clone()])),
        }
    }
    for (h, (s, vs)) in groups.iter().enumerate() {
        generic_history(&mut ctx, s, vs, h);
    }
    typed_history(&mut ctx, groups.len());
    glue_history(&mut ctx, groups.len() + 1);
    same_named_types(&mut ctx, groups.len() + 2);
    out.flush().unwrap();
    0
}

fn main() {
    quiet_panics();
    let args = parse_args();
    let rc = match args.cmd.as_str() {
        "run" => cmd_run(&args),
        other => { eprintln!("unknown command {other:?}"); 2 }
    };
    std::process::exit(rc);
}
