//! avh — datum-level executions (C01, C02, ...).
use avro_verif_harness::{datum, parse_args, quiet_panics, validate};

fn main() {
    quiet_panics();
    let args = parse_args();
    let rc = match args.cmd.as_str() {
        "datum-gen" => datum::cmd_gen(&args),
        "datum-run" => datum::cmd_run(&args),
        "validate-run" => validate::cmd_run(&args),
        other => {
            eprintln!("unknown command {other:?}");
            2
        }
    };
    std::process::exit(rc);
}
