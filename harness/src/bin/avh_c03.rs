//! avh_c03 — replays Writer operation histories (C03) on the real container Writer.
//!
//! `replay --scn FILE --out FILE [--first-bid N]`
//! scenario = {"block_size": n, "ops": [[op, args..], ...]} as emitted by MC_ContainerWriter or by
//! `gen` (seeded random, longer histories).  After every operation the sink is split (by this
//! harness' own container splitter) into headers and blocks of value ids; at the end the file is
//! read back with the crate's Reader.

use apache_avro::types::Value;
use apache_avro::{Codec, Reader, Schema, Writer};
use avro_verif_harness::container::{split_file, SharedSink};
use avro_verif_harness::generate::Rng;
use avro_verif_harness::{Args, guarded, open_out, parse_args, quiet_panics, read_lines};
use serde::Serialize;
use serde_json::{Value as J, json};
use std::io::Write as _;

const SCHEMA: &str = r#"{"type":"record","name":"R","namespace":"c03","fields":[{"name":"a","type":"long"},{"name":"b","type":"string"}]}"#;

fn id_num(id: &str) -> i64 {
    match id { "a" => 1, "b" => 2, "c" => 3, _ => 99 }
}
fn id_pad(id: &str) -> usize {
    match id { "a" => 2, "b" => 3, "c" => 7, _ => 1 }
}
const ZERO_SCHEMA: &str = r#""null""#;
/// zero mode (id "z"): schema "null", every value is zero bytes wide
fn good_value(id: &str) -> Value {
    if id == "z" { return Value::Null; }
    Value::Record(vec![("a".into(), Value::Long(id_num(id))), ("b".into(), Value::String("x".repeat(id_pad(id))))])
}
// (the schema-aware deserializer requires the struct's serde name to be the record's name)
#[derive(Serialize, serde::Deserialize)]
#[serde(rename = "R")]
struct GoodSer { a: i64, b: String }
enum AnySer { Good(GoodSer), Unit }
impl Serialize for AnySer {
    fn serialize<S: serde::Serializer>(&self, s: S) -> Result<S::Ok, S::Error> {
        match self { AnySer::Good(g) => g.serialize(s), AnySer::Unit => s.serialize_unit() }
    }
}
fn good_ser(id: &str) -> AnySer {
    if id == "z" { return AnySer::Unit; }
    AnySer::Good(GoodSer { a: id_num(id), b: "x".repeat(id_pad(id)) })
}
/// serializes field `a`, then fails
struct FailingSer;
impl Serialize for FailingSer {
    fn serialize<S: serde::Serializer>(&self, s: S) -> Result<S::Ok, S::Error> {
        use serde::ser::SerializeStruct;
        let mut st = s.serialize_struct("R", 2)?;
        st.serialize_field("a", &7i64)?;
        Err(serde::ser::Error::custom("harness: failing after the first field"))
    }
}
fn value_id(v: &Value) -> String {
    if *v == Value::Null { return "z".to_string(); }
    if let Value::Record(fs) = v {
        if fs.len() == 2 {
            if let (Value::Long(n), Value::String(s)) = (&fs[0].1, &fs[1].1) {
                for id in ["a", "b", "c"] {
                    if *n == id_num(id) && s.len() == id_pad(id) && s.bytes().all(|c| c == b'x') {
                        return id.to_string();
                    }
                }
            }
        }
    }
    "?".to_string()
}

fn codec_for(i: usize) -> (Codec, &'static str) {
    match i % 6 {
        0 => (Codec::Null, "null"),
        1 => (Codec::Deflate(Default::default()), "deflate"),
        2 => (Codec::Snappy, "snappy"),
        3 => (Codec::Bzip2(Default::default()), "bzip2"),
        4 => (Codec::Xz(Default::default()), "xz"),
        _ => (Codec::Zstandard(Default::default()), "zstandard"),
    }
}

fn observe(sink: &SharedSink, schema: &Schema, codec: Codec) -> J {
    let bytes = sink.bytes();
    match split_file(&bytes, schema, codec) {
        Ok(sp) => json!({"split_ok": true, "hdrs": sp.headers, "blocks": sp.blocks.iter().map(|b| b.iter().map(value_id).collect::<Vec<_>>()).collect::<Vec<_>>(),
                         "sink_len": bytes.len(), "partial": sp.trailing, "markers_same": sp.markers_same}),
        Err(_) => json!({"split_ok": false, "hdrs": 0, "blocks": [], "sink_len": bytes.len(), "partial": 0, "markers_same": false}),
    }
}

fn replay_one(bid: usize, scn: &J, out: &mut Box<dyn std::io::Write>) {
    let zero = scn.get("zero").and_then(|z| z.as_bool()).unwrap_or(false);
    let schema = Schema::parse_str(if zero { ZERO_SCHEMA } else { SCHEMA }).unwrap();
    let block_size = scn["block_size"].as_u64().unwrap_or(16000) as usize;
    let (codec, codec_name) = codec_for(scn.get("codec").and_then(|c| c.as_u64()).map(|c| c as usize).unwrap_or(bid));
    let sink = SharedSink::new();
    let marker0 = [0x5au8; 16];
    writeln!(out, "{}", json!({"ev":"begin","bid":bid,"block_size":block_size,"codec":codec_name,"zero":zero})).unwrap();
    let mk = |sink: &SharedSink, has_header: bool, marker: [u8; 16]| {
        Writer::builder().schema(&schema).writer(sink.clone()).codec(codec).block_size(block_size)
            .marker(marker).has_header(has_header).build().unwrap()
    };
    let mut writer: Option<Writer<SharedSink>> = Some(mk(&sink, false, marker0));
    let ops = scn["ops"].as_array().cloned().unwrap_or_default();
    let mut all_ops: Vec<J> = ops.clone();
    let mut i = 0;
    let mut closed_once = false;
    while i < all_ops.len() {
        let op = all_ops[i].clone();
        let name = op[0].as_str().unwrap_or("?").to_string();
        let variant = (bid + i) % 4;
        let mut panicked = false;
        let res: Result<(), String> = match name.as_str() {
            "append" => {
                let id = op[1].as_str().unwrap();
                let w = writer.as_mut().unwrap();
                match guarded(std::panic::AssertUnwindSafe(|| match variant {
                    0 => w.append_value(good_value(id)).map(|_| ()),
                    1 => w.append_value_ref(&good_value(id)).map(|_| ()),
                    2 => w.unvalidated_append_value(good_value(id)).map(|_| ()),
                    _ => w.append_ser(good_ser(id)).map(|_| ()),
                })) { Ok(r) => r.map_err(|e| e.to_string()), Err(p) => { panicked = true; Err(p) } }
            }
            "append-rejected" => {
                let w = writer.as_mut().unwrap();
                let bad = if zero { Value::Long(7) } else { Value::Record(vec![("a".into(), Value::Long(7)), ("b".into(), Value::Long(8))]) };
                match guarded(std::panic::AssertUnwindSafe(|| if variant % 2 == 0 { w.append_value(bad.clone()) } else { w.append_value_ref(&bad) })) {
                    Ok(r) => r.map(|_| ()).map_err(|e| e.to_string()), Err(p) => { panicked = true; Err(p) } }
            }
            "append-encode-fails" => {
                let w = writer.as_mut().unwrap();
                // field a is encoded, then field b (an array under a string schema) makes the encoder fail
                let bad = if zero { Value::Array(vec![Value::Long(8)]) } else { Value::Record(vec![("a".into(), Value::Long(7)), ("b".into(), Value::Array(vec![Value::Long(8)]))]) };
                match guarded(std::panic::AssertUnwindSafe(|| match variant % 3 {
                    0 => w.unvalidated_append_value_ref(&bad).map(|_| ()),
                    1 => w.unvalidated_append_value(bad.clone()).map(|_| ()),
                    _ => w.append_ser(FailingSer).map(|_| ()),
                })) { Ok(r) => r.map_err(|e| e.to_string()), Err(p) => { panicked = true; Err(p) } }
            }
            "flush" => {
                let w = writer.as_mut().unwrap();
                match guarded(std::panic::AssertUnwindSafe(|| w.flush())) { Ok(r) => r.map(|_| ()).map_err(|e| e.to_string()), Err(p) => { panicked = true; Err(p) } }
            }
            "flush-sinkfail" => {
                // the sink accepts the block's bytes, then its own flush() fails: the error must come back and the
                // block must not be written a second time later
                sink.1.set(1);
                let w = writer.as_mut().unwrap();
                let r = match guarded(std::panic::AssertUnwindSafe(|| w.flush())) { Ok(r) => r.map(|_| ()).map_err(|e| e.to_string()), Err(p) => { panicked = true; Err(p) } };
                sink.1.set(0);
                r
            }
            "extend" => {
                let ids: Vec<String> = op[1].as_array().unwrap().iter().map(|x| x.as_str().unwrap().to_string()).collect();
                let w = writer.as_mut().unwrap();
                match guarded(std::panic::AssertUnwindSafe(|| match variant % 3 {
                    0 => w.extend(ids.iter().map(|i| good_value(i))).map(|_| ()),
                    1 => { let vs: Vec<Value> = ids.iter().map(|i| good_value(i)).collect(); w.extend_from_slice(&vs).map(|_| ()) }
                    _ => w.extend_ser(ids.iter().map(|i| good_ser(i))).map(|_| ()),
                })) { Ok(r) => r.map_err(|e| e.to_string()), Err(p) => { panicked = true; Err(p) } }
            }
            "extend-bad" => {
                // the good values `pre`, then a value validation rejects, then one more good value
                let ids: Vec<String> = op[1].as_array().unwrap().iter().map(|x| x.as_str().unwrap().to_string()).collect();
                let bad = if zero { Value::Long(7) } else { Value::Record(vec![("a".into(), Value::Long(7)), ("b".into(), Value::Long(8))]) };
                let mut vs: Vec<Value> = ids.iter().map(|i| good_value(i)).collect();
                vs.push(bad);
                vs.push(good_value(if zero { "z" } else { "a" }));
                let w = writer.as_mut().unwrap();
                match guarded(std::panic::AssertUnwindSafe(|| if variant % 2 == 0 { w.extend(vs.clone()).map(|_| ()) } else { w.extend_from_slice(&vs).map(|_| ()) })) {
                    Ok(r) => r.map_err(|e| e.to_string()), Err(p) => { panicked = true; Err(p) } }
            }
            "add-meta" => {
                let k = op[1].as_str().unwrap().to_string();
                let w = writer.as_mut().unwrap();
                match guarded(std::panic::AssertUnwindSafe(|| w.add_user_metadata(k.clone(), format!("value-of-{k}")))) {
                    Ok(r) => r.map_err(|e| e.to_string()), Err(p) => { panicked = true; Err(p) } }
            }
            "reset" => {
                let w = writer.as_mut().unwrap();
                match guarded(std::panic::AssertUnwindSafe(|| w.reset())) { Ok(()) => Ok(()), Err(p) => { panicked = true; Err(p) } }
            }
            "close" => {
                let how = op[1].as_str().unwrap_or("into_inner");
                let w = writer.take().unwrap();
                closed_once = true;
                if how == "drop" {
                    match guarded(std::panic::AssertUnwindSafe(move || drop(w))) { Ok(()) => Ok(()), Err(p) => { panicked = true; Err(p) } }
                } else {
                    match guarded(std::panic::AssertUnwindSafe(move || w.into_inner().map(|_| ()))) { Ok(r) => r.map_err(|e| e.to_string()), Err(p) => { panicked = true; Err(p) } }
                }
            }
            "reopen" => {
                // append_to with the marker found in the file that was closed
                let bytes = sink.bytes();
                match split_file(&bytes, &schema, codec) {
                    Ok(sp) if sp.headers == 1 => { writer = Some(mk(&sink, true, sp.marker)); Ok(()) }
                    _ => Err("no closed file to reopen".to_string()),
                }
            }
            other => Err(format!("unknown op {other}")),
        };
        let mut ev = observe(&sink, &schema, codec);
        ev["ev"] = J::from("op");
        ev["bid"] = J::from(bid);
        ev["step"] = J::from(i);
        ev["op"] = op.clone();
        ev["variant"] = J::from(variant);
        ev["res"] = J::from(if res.is_ok() { "ok" } else { "err" });
        ev["panic"] = J::from(panicked);
        ev["err"] = J::from(res.err().unwrap_or_default());
        writeln!(out, "{ev}").unwrap();
        i += 1;
        // a history that ends with the writer still open is closed by the harness (alternating how)
        if i == all_ops.len() && writer.is_some() {
            all_ops.push(json!(["close", if bid % 2 == 0 { "into_inner" } else { "drop" }]));
        }
    }
    let _ = closed_once;
    // read back with the crate's Reader
    let bytes = sink.bytes();
    let rb = guarded(std::panic::AssertUnwindSafe(|| {
        let rd = Reader::new(&bytes[..]).map_err(|e| e.to_string())?;
        let schema_same = *rd.writer_schema() == schema;
        let mut meta: Vec<String> = rd.user_metadata().iter()
            .filter(|(k, v)| **v == format!("value-of-{k}").into_bytes()).map(|(k, _)| k.clone()).collect();
        meta.sort();
        let nmeta = rd.user_metadata().len();
        let mut ids = vec![];
        let mut err = false;
        for it in rd {
            match it { Ok(v) => ids.push(value_id(&v)), Err(_) => { err = true; } }
        }
        // and through the deserializing iterator
        let mut dids = vec![];
        let mut derr = false;
        if let Ok(rd2) = Reader::new(&bytes[..]) {
            if zero {
                for it in rd2.into_deser_iter::<()>() {
                    match it { Ok(()) => dids.push("z".to_string()), Err(_) => { derr = true; } }
                }
            } else {
                for it in rd2.into_deser_iter::<GoodSer>() {
                    match it {
                        Ok(g) => dids.push(value_id(&Value::Record(vec![("a".into(), Value::Long(g.a)), ("b".into(), Value::String(g.b))]))),
                        Err(_) => { derr = true; }
                    }
                }
            }
        } else { derr = true; }
        Ok::<J, String>(json!({"read_ok": !err, "read": ids, "meta": meta, "nmeta": nmeta, "schema_same": schema_same, "empty": false,
                               "deser_ok": !derr, "deser_read": dids}))
    }));
    let mut ev = match rb {
        Ok(Ok(j)) => j,
        _ => json!({"read_ok": false, "read": [], "meta": [], "nmeta": 0, "schema_same": false, "empty": bytes.is_empty(), "deser_ok": false, "deser_read": []}),
    };
    ev["ev"] = J::from("end");
    ev["bid"] = J::from(bid);
    writeln!(out, "{ev}").unwrap();
}

fn cmd_replay(a: &Args) -> i32 {
    let lines = read_lines(a.req("scn"));
    let mut out = open_out(a.req("out"));
    let first = a.usize("first-bid", 0);
    for (i, line) in lines.iter().enumerate() {
        let scn: J = serde_json::from_str(line).expect("scenario json");
        replay_one(first + i, &scn, &mut out);
    }
    out.flush().unwrap();
    0
}

/// seeded random histories, longer than the TLC bound, block sizes around the value sizes and the default
fn cmd_gen(a: &Args) -> i32 {
    let mut rng = Rng::new(a.u64("seed", 1));
    let mut out = open_out(a.req("out"));
    let n = a.usize("count", 100);
    let maxlen = a.usize("maxlen", 30);
    for _ in 0..n {
        let bs = *rng.pick(&[0usize, 1, 4, 5, 9, 10, 13, 40, 16000]);
        let len = 1 + rng.below(maxlen);
        let mut ops: Vec<J> = vec![];
        let mut open = true;
        let mut ever_header = false;
        for _ in 0..len {
            if !open {
                ops.push(json!(["reopen"]));
                open = true;
                continue;
            }
            let ids = ["a", "b", "c"];
            let op = match rng.below(20) {
                0..=7 => { ever_header = true; json!(["append", *rng.pick(&ids), "ok"]) }
                8 => json!(["append-rejected"]),
                9 => { ever_header = true; json!(["append-encode-fails"]) }
                10 => { ever_header = true; json!(["flush"]) }
                11 => { ever_header = true; if rng.below(2) == 0 { json!(["flush"]) } else { json!(["flush-sinkfail"]) } }
                12 => { ever_header = true; let k = 1 + rng.below(4); json!(["extend", (0..k).map(|_| *rng.pick(&ids)).collect::<Vec<_>>(), "ok"]) }
                13 => { let k = rng.below(3); if k > 0 { ever_header = true; } json!(["extend-bad", (0..k).map(|_| *rng.pick(&ids)).collect::<Vec<_>>()]) }
                14 | 15 => json!(["add-meta", *rng.pick(&["k1", "k2", "k3"]), if ever_header { "err" } else { "ok" }]),
                16 => { ever_header = false; json!(["reset"]) }
                17 => { open = false; json!(["close", "drop"]) }
                _ => { open = false; json!(["close", "into_inner"]) }
            };
            ops.push(op);
        }
        writeln!(out, "{}", json!({"block_size": bs, "ops": ops})).unwrap();
    }
    0
}

fn main() {
    quiet_panics();
    let args = parse_args();
    let rc = match args.cmd.as_str() {
        "replay" => cmd_replay(&args),
        "gen" => cmd_gen(&args),
        other => { eprintln!("unknown command {other:?}"); 2 }
    };
    std::process::exit(rc);
}
