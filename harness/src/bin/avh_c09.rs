//! avh_c09 — compatibility verdicts vs actual reading (property C09).
//!   run --scn FILE --out FILE   each line {W, vals, readers:[{R, hist}]}: for every reader R record
//!                               can_read(W,R), can_read(R,W), mutual_read both ways, can_read(R,R) and for every
//!                               value of W whether the real read with R succeeded
//!   gen --seed S --count N --maxlen L --out FILE   seeded random evolution pairs (one reader per line)
//! The harness records; spec/Trace_Compat.tla judges.
#[path = "../resolve_common.rs"]
mod resolve_common;

use avro_verif_harness::generate::{Rng, env_of, value_for};
use avro_verif_harness::term::*;
use avro_verif_harness::{Args, open_out, parse_args, quiet_panics, read_lines};
use resolve_common::*;
use serde_json::{Value as J, json};
use std::io::Write;

fn cmd_gen(a: &Args) -> i32 {
    let seed = a.u64("seed", 1);
    let count = a.usize("count", 100);
    let maxlen = a.usize("maxlen", 4);
    let mut out = open_out(a.req("out"));
    let mut rng = Rng::new(seed ^ 0xC09);
    let mut made = 0;
    let mut tries = 0;
    while made < count && tries < count * 20 {
        tries += 1;
        let mut ctr = 0;
        let d = 1 + rng.below(3);
        let w = random_seed(&mut rng, d, &mut ctr);
        if !well_formed_r(&w) {
            continue;
        }
        let env = env_of(&w);
        let mut vals: Vec<J> = vec![];
        for _ in 0..(2 + rng.below(4)) {
            let v = value_for(&mut rng, &w, &env, 3);
            // keep replayed values small: judging cost grows with the size of tree-shaped recursive values
            if json_depth(&v) <= 30 && v.to_string().len() <= 1500 && !vals.contains(&v) {
                vals.push(v);
            }
        }
        let mut readers = vec![];
        for _ in 0..3 {
            let len = 1 + rng.below(maxlen.max(1));
            let (r, hist) = random_evolution(&mut rng, &w, len);
            if !hist.is_empty() {
                readers.push(json!({"R": r, "hist": hist}));
            }
        }
        if readers.is_empty() || vals.is_empty() {
            continue;
        }
        writeln!(out, "{}", json!({"W": w, "vals": vals, "readers": readers})).unwrap();
        made += 1;
    }
    out.flush().unwrap();
    0
}

fn cmd_run(a: &Args) -> i32 {
    let lines = read_lines(a.req("scn"));
    let mut out = open_out(a.req("out"));
    for (idx, line) in lines.iter().enumerate() {
        let scn: J = match serde_json::from_str(line) {
            Ok(j) => j,
            Err(e) => {
                eprintln!("bad scenario line {idx}: {e}");
                return 2;
            }
        };
        let (wt, ws) = parse_term(&scn["W"]);
        let mut ev = json!({"ev":"compat","id":small(idx),"W":scn["W"],"vals":scn["vals"],"wtext":wt});
        let w = match ws {
            Ok(w) => w,
            Err(e) => {
                ev["parse_ok"] = J::Bool(false);
                ev["parse_err"] = J::from(e);
                ev["wn"] = json!({"k":"other"});
                ev["cr_ww"] = json!({"vd":"Err","panic":false,"why":""});
                ev["readers"] = json!([]);
                writeln!(out, "{ev}").unwrap();
                continue;
            }
        };
        ev["parse_ok"] = J::Bool(true);
        ev["parse_err"] = J::from("");
        ev["wn"] = schema_to_term(&w);
        ev["cr_ww"] = verdict(&w, &w, false);
        let mut readers = vec![];
        for rd in scn["readers"].as_array().unwrap() {
            let (rt, rs) = parse_term(&rd["R"]);
            let mut e = json!({"R": rd["R"], "hist": rd["hist"], "rtext": rt});
            match rs {
                Ok(r) => {
                    e["parse_ok"] = J::Bool(true);
                    e["rn"] = schema_to_term(&r);
                    e["cr_wr"] = verdict(&w, &r, false);
                    e["cr_rw"] = verdict(&r, &w, false);
                    e["mu_wr"] = verdict(&w, &r, true);
                    e["mu_rw"] = verdict(&r, &w, true);
                    e["cr_rr"] = verdict(&r, &r, false);
                    let reads: Vec<J> = scn["vals"].as_array().unwrap().iter().map(|v| {
                        let mut x = read_ok(&w, &r, v);
                        x.as_object_mut().unwrap().remove("v");
                        x
                    }).collect();
                    e["reads"] = J::Array(reads);
                }
                Err(_) => {
                    let none = json!({"vd":"Err","panic":false,"why":"reader schema not accepted"});
                    e["parse_ok"] = J::Bool(false);
                    e["rn"] = json!({"k":"other"});
                    for k in ["cr_wr", "cr_rw", "mu_wr", "mu_rw", "cr_rr"] {
                        e[k] = none.clone();
                    }
                    e["reads"] = json!([]);
                }
            }
            readers.push(e);
        }
        ev["readers"] = J::Array(readers);
        writeln!(out, "{ev}").unwrap();
    }
    out.flush().unwrap();
    0
}

fn main() {
    quiet_panics();
    let args = parse_args();
    let rc = match args.cmd.as_str() {
        "gen" => cmd_gen(&args),
        "run" => cmd_run(&args),
        other => {
            eprintln!("unknown command {other:?}");
            2
        }
    };
    std::process::exit(rc);
}
