//! C07: validation verdict vs. the three validating write paths.

use crate::term::*;
use crate::{Args, guarded, open_out, read_lines};
use apache_avro::writer::datum::GenericDatumWriter;
use apache_avro::{GenericSingleObjectWriter, Reader, Schema, Writer};
use serde_json::{Value as J, json};
use std::io::Write;

fn res_bytes(r: Result<Result<Vec<u8>, String>, String>, sink_after_err: usize) -> J {
    match r {
        Ok(Ok(b)) => json!({"ok":true,"panic":false,"bytes":bytes_j(&b),"sunk":small(b.len()),"err":""}),
        Ok(Err(e)) => json!({"ok":false,"panic":false,"bytes":[],"sunk":small(sink_after_err),"err":e}),
        Err(p) => json!({"ok":false,"panic":true,"bytes":[],"sunk":small(sink_after_err),"err":p}),
    }
}

/// `validate-run --scn FILE --out FILE`: scenario = {s, good, v, kind}
pub fn cmd_run(a: &Args) -> i32 {
    let lines = read_lines(a.req("scn"));
    let mut out = open_out(a.req("out"));
    for (idx, line) in lines.iter().enumerate() {
        let scn: J = serde_json::from_str(line).expect("scenario json");
        let s = &scn["s"];
        let text = render_schema_text(s, (idx % 3) as u8);
        let mut ev = json!({"ev":"validate","id":small(idx),"s":s,"good":scn["good"],"v":scn["v"],"kind":scn["kind"]});
        let Ok(Ok(schema)) = guarded(|| Schema::parse_str(&text)) else {
            ev["parse_ok"] = J::from(false);
            writeln!(out, "{ev}").unwrap();
            continue;
        };
        // a term that has no Value (e.g. a non-UTF-8 "string") cannot be handed to the crate at all
        let (Ok(v), Ok(good)) = (guarded(|| vterm_to_value(&scn["v"])), guarded(|| vterm_to_value(&scn["good"]))) else {
            ev["parse_ok"] = J::from(false);
            writeln!(out, "{ev}").unwrap();
            continue;
        };
        ev["parse_ok"] = J::from(true);
        // 1. the validation verdict
        let accepted = guarded(std::panic::AssertUnwindSafe(|| v.validate(&schema)));
        ev["accepted"] = J::from(matches!(accepted, Ok(true)));
        ev["validate_panic"] = J::from(accepted.is_err());
        // 2. datum writer (validating)
        let mut sink: Vec<u8> = Vec::new();
        let r = guarded(std::panic::AssertUnwindSafe(|| {
            let w = GenericDatumWriter::builder(&schema).build().map_err(|e| e.to_string())?;
            w.write_value_ref(&mut sink, &v).map_err(|e| e.to_string())?;
            Ok::<(), String>(())
        }));
        let sunk = sink.len();
        ev["datum"] = res_bytes(r.map(|x| x.map(|_| sink.clone())), sunk);
        // 3. container writer: the value, then a known-good value, then close and read back
        let marker = [9u8; 16];
        let cont = guarded(std::panic::AssertUnwindSafe(|| {
            let mut w = Writer::builder().schema(&schema).writer(Vec::new()).marker(marker).build().map_err(|e| e.to_string())?;
            let r1 = w.append_value_ref(&v);
            let sunk_after = w.get_ref().len();
            let r2 = w.append_value_ref(&good);
            let file = w.into_inner().map_err(|e| e.to_string())?;
            let mut items = vec![];
            let mut read_err = false;
            match Reader::new(&file[..]) {
                Ok(rd) => {
                    for it in rd {
                        match it {
                            Ok(x) => items.push(value_to_vterm(&x)),
                            Err(_) => read_err = true,
                        }
                    }
                }
                Err(_) => read_err = true,
            }
            Ok::<J, String>(json!({"ok": r1.is_ok(), "panic": false, "sunk_after_append": small(sunk_after), "next_ok": r2.is_ok(),
                                   "items": items, "read_err": read_err, "err": r1.err().map(|e| e.to_string()).unwrap_or_default()}))
        }));
        ev["container"] = match cont {
            Ok(Ok(j)) => j,
            Ok(Err(e)) => json!({"ok":false,"panic":false,"sunk_after_append":0,"next_ok":false,"items":[],"read_err":true,"err":e}),
            Err(p) => json!({"ok":false,"panic":true,"sunk_after_append":0,"next_ok":false,"items":[],"read_err":true,"err":p}),
        };
        // 4. generic single-object writer
        let mut sink2: Vec<u8> = Vec::new();
        let r = guarded(std::panic::AssertUnwindSafe(|| {
            let mut w = GenericSingleObjectWriter::new_with_capacity(&schema, 64).map_err(|e| e.to_string())?;
            w.write_value_ref(&v, &mut sink2).map_err(|e| e.to_string())?;
            Ok::<(), String>(())
        }));
        let sunk2 = sink2.len();
        ev["single"] = res_bytes(r.map(|x| x.map(|_| sink2.clone())), sunk2);
        writeln!(out, "{ev}").unwrap();
    }
    out.flush().unwrap();
    0
}
