//! C17: derived schemas.  Library half of the generated corpus crate (harness/corpus_c17): the
//! generated `main` registers one runner per scenario root type; `run_type::<T>` records, for one
//! scenario, the derived schema (projected to a term, twice), its JSON round trip, and for every
//! TLC-chosen value of the type the serde executions of C16 plus a container-file round trip.
//! Nothing is judged here (spec/Trace_Derive.tla does that).

use crate::c16::{Shaped, back_result, gen_result, ser_result, set_shape};
use apache_avro::reader::datum::GenericDatumReader;
use apache_avro::writer::datum::GenericDatumWriter;
use crate::generate::env_of;
use crate::sv::*;
use crate::term::*;
use crate::{guarded, open_out, parse_args, quiet_panics, read_lines};
use apache_avro::schema::{InnerDecimalSchema, Name, RecordField, UuidSchema};
use apache_avro::{AvroSchema, Reader, Schema, Writer};
use serde::Serialize;
use serde::de::DeserializeOwned;
use serde_json::{Value as J, json};
use std::io::Write as _;
use std::panic::AssertUnwindSafe;

/// JSON default -> what the TLA+ side can read (no null, no floats, no wide integers)
pub fn enc_json(v: &J) -> J {
    match v {
        J::Null => J::from("@null"),
        J::Bool(b) => J::from(*b),
        J::Number(n) => match n.as_i64() {
            Some(i) if i.unsigned_abs() < (1u64 << 31) => J::from(i),
            Some(i) => J::from(format!("@n:{i}")),
            None => J::from(format!("@f:{}", n)),
        },
        J::String(s) => {
            if s.chars().any(|c| (c as u32) >= 128) && s.chars().all(|c| (c as u32) < 256) {
                J::from(format!("@b:{}", s.chars().map(|c| format!("{:02x}", c as u32)).collect::<String>()))
            } else {
                J::from(s.clone())
            }
        }
        J::Array(a) => J::Array(a.iter().map(enc_json).collect()),
        J::Object(o) if o.is_empty() => J::from("@obj"),
        J::Object(o) => J::Object(o.iter().map(|(k, v)| (k.clone(), enc_json(v))).collect()),
    }
}

fn full(n: &Name) -> String {
    match n.namespace() {
        Some(ns) if !ns.is_empty() => format!("{ns}.{}", n.name()),
        _ => n.name().to_string(),
    }
}

fn named_keys(obj: &mut serde_json::Map<String, J>, n: &Name, doc: &Option<String>, aliases: &Option<Vec<apache_avro::schema::Alias>>) {
    obj.insert("name".into(), J::from(full(n)));
    obj.insert("short".into(), J::from(n.name()));
    obj.insert("doc".into(), J::from(doc.clone().unwrap_or_default()));
    let al: Vec<J> = aliases.as_ref().map(|a| a.iter().map(|x| J::from(x.fullname(None))).collect()).unwrap_or_default();
    obj.insert("aliases".into(), J::Array(al));
}

fn field_term(f: &RecordField) -> J {
    json!({
        "name": f.name,
        "type": schema_to_term(&f.schema),
        "doc": f.doc.clone().unwrap_or_default(),
        "aliases": f.aliases,
        "hasdef": f.default.is_some(),
        "defjson": f.default.as_ref().map(enc_json).unwrap_or(J::from(0)),
    })
}

/// projection of a crate `Schema` to a schema term (AvroSchema.tla + the keys SerdeModel/DeriveModel read)
pub fn schema_to_term(s: &Schema) -> J {
    let prim = |k: &str| json!({"k": k});
    match s {
        Schema::Null => prim("null"),
        Schema::Boolean => prim("boolean"),
        Schema::Int => prim("int"),
        Schema::Long => prim("long"),
        Schema::Float => prim("float"),
        Schema::Double => prim("double"),
        Schema::Bytes => prim("bytes"),
        Schema::String => prim("string"),
        Schema::Date => prim("date"),
        Schema::TimeMillis => prim("time-millis"),
        Schema::TimeMicros => prim("time-micros"),
        Schema::TimestampMillis => prim("timestamp-millis"),
        Schema::TimestampMicros => prim("timestamp-micros"),
        Schema::TimestampNanos => prim("timestamp-nanos"),
        Schema::LocalTimestampMillis => prim("local-timestamp-millis"),
        Schema::LocalTimestampMicros => prim("local-timestamp-micros"),
        Schema::LocalTimestampNanos => prim("local-timestamp-nanos"),
        Schema::BigDecimal => prim("big-decimal"),
        Schema::Array(a) => json!({"k":"array","items":schema_to_term(&a.items)}),
        Schema::Map(m) => json!({"k":"map","values":schema_to_term(&m.types)}),
        Schema::Union(u) => json!({"k":"union","branches":u.variants().iter().map(schema_to_term).collect::<Vec<_>>()}),
        Schema::Ref { name } => json!({"k":"ref","name":full(name)}),
        Schema::Record(r) => {
            let mut o = serde_json::Map::new();
            o.insert("k".into(), J::from("record"));
            named_keys(&mut o, &r.name, &r.doc, &r.aliases);
            o.insert("fields".into(), J::Array(r.fields.iter().map(field_term).collect()));
            o.insert("tuple".into(), J::from(r.attributes.get("org.apache.avro.rust.tuple") == Some(&J::Bool(true))));
            o.insert("uor".into(), J::from(r.attributes.get("org.apache.avro.rust.union_of_records") == Some(&J::Bool(true))));
            J::Object(o)
        }
        Schema::Enum(e) => {
            let mut o = serde_json::Map::new();
            o.insert("k".into(), J::from("enum"));
            named_keys(&mut o, &e.name, &e.doc, &e.aliases);
            o.insert("symbols".into(), json!(e.symbols));
            o.insert("edefault".into(), J::from(e.default.clone().unwrap_or_default()));
            J::Object(o)
        }
        Schema::Fixed(f) => {
            let mut o = serde_json::Map::new();
            o.insert("k".into(), J::from("fixed"));
            named_keys(&mut o, &f.name, &f.doc, &f.aliases);
            o.insert("size".into(), small(f.size));
            J::Object(o)
        }
        Schema::Duration(f) => {
            let mut o = serde_json::Map::new();
            o.insert("k".into(), J::from("duration"));
            named_keys(&mut o, &f.name, &f.doc, &f.aliases);
            o.insert("size".into(), small(f.size));
            J::Object(o)
        }
        Schema::Uuid(UuidSchema::String) => json!({"k":"uuid","base":"string"}),
        Schema::Uuid(UuidSchema::Bytes) => json!({"k":"uuid","base":"bytes"}),
        Schema::Uuid(UuidSchema::Fixed(f)) => {
            let mut o = serde_json::Map::new();
            o.insert("k".into(), J::from("uuid"));
            o.insert("base".into(), J::from("fixed"));
            named_keys(&mut o, &f.name, &f.doc, &f.aliases);
            o.insert("size".into(), small(f.size));
            J::Object(o)
        }
        Schema::Decimal(d) => match &d.inner {
            InnerDecimalSchema::Bytes => json!({"k":"decimal","base":"bytes","precision":small(d.precision),"scale":small(d.scale)}),
            InnerDecimalSchema::Fixed(f) => {
                let mut o = serde_json::Map::new();
                o.insert("k".into(), J::from("decimal"));
                o.insert("base".into(), J::from("fixed"));
                named_keys(&mut o, &f.name, &f.doc, &f.aliases);
                o.insert("size".into(), small(f.size));
                o.insert("precision".into(), small(d.precision));
                o.insert("scale".into(), small(d.scale));
                J::Object(o)
            }
        },
    }
}

fn schema_result(r: Result<Schema, String>) -> (Option<Schema>, J) {
    match r {
        Ok(s) => {
            let t = schema_to_term(&s);
            (Some(s), json!({"ok":true,"term":t,"err":""}))
        }
        Err(e) => (None, json!({"ok":false,"term":{"k":"none"},"err":e})),
    }
}

/// one scenario: `scn` = {name, root, defs, exp, vals: [serde terms]}
pub fn run_type<T: AvroSchema + Serialize + DeserializeOwned>(scn: &J) -> J {
    let mut ev = json!({"ev":"derive","name":scn["name"],"root":scn["root"],"defs":scn["defs"],"supported":true});
    let (schema, first) = schema_result(guarded(|| T::get_schema()));
    let (_, again) = schema_result(guarded(|| T::get_schema()));
    ev["schema"] = first;
    ev["again"] = again;
    let Some(schema) = schema else {
        ev["json"] = json!({"ok":false,"term":{"k":"none"},"err":"no schema","same":false,"text":""});
        ev["vals"] = json!([]);
        return ev;
    };
    // JSON round trip
    let text = guarded(AssertUnwindSafe(|| serde_json::to_string(&schema).map_err(|e| e.to_string())));
    ev["json"] = match text {
        Ok(Ok(text)) => match guarded(AssertUnwindSafe(|| Schema::parse_str(&text).map_err(|e| e.to_string()))) {
            Ok(Ok(re)) => json!({"ok":true,"term":schema_to_term(&re),"err":"","same":re == schema,"text":text}),
            Ok(Err(e)) => json!({"ok":false,"term":{"k":"none"},"err":format!("parse_str: {e}"),"same":false,"text":text}),
            Err(p) => json!({"ok":false,"term":{"k":"none"},"err":format!("parse_str panicked: {p}"),"same":false,"text":text}),
        },
        Ok(Err(e)) => json!({"ok":false,"term":{"k":"none"},"err":format!("to_string: {e}"),"same":false,"text":""}),
        Err(p) => json!({"ok":false,"term":{"k":"none"},"err":format!("to_string panicked: {p}"),"same":false,"text":""}),
    };
    let sterm = schema_to_term(&schema);
    let env = env_of(&sterm);
    let mut al = vec![];
    collect_field_aliases(&sterm, &mut al);
    ALIASES.with(|x| *x.borrow_mut() = al);
    let project = |v: &T| -> J {
        match capture(v) {
            Ok(sv) => retag_structmaps(sv, &sterm, &env).to_term(),
            Err(e) => json!({"c":"undef","err":e.0}),
        }
    };
    let mut vals = vec![];
    for term in scn["vals"].as_array().cloned().unwrap_or_default() {
        let model = SV::from_term(&term);
        let mut v = json!({"model":term,"build_ok":true,"build_err":"","sv":undef_term(),"runs":[],
                           "file":back_result(Ok(Err("not run".into())))});
        match build::<T>(&model) {
            Err(e) => {
                v["build_ok"] = J::from(false);
                v["build_err"] = J::from(e.0);
            }
            Ok(value) => {
                // what the value really serializes as; writing replays exactly these calls (one instantiation of
                // T's Serialize instead of one per writer keeps the corpus compile time down)
                let sv = match capture(&value) {
                    Ok(sv) => retag_structmaps(sv, &sterm, &env),
                    Err(e) => {
                        v["build_ok"] = J::from(false);
                        v["build_err"] = J::from(format!("capture: {}", e.0));
                        vals.push(v);
                        continue;
                    }
                };
                v["sv"] = sv.to_term();
                set_shape(Some(sv.clone()));
                let subject = Shaped(sv);
                let mut runs = vec![];
                for t in [0usize, 8] {
                    let ser = ser_result(guarded(AssertUnwindSafe(|| {
                        let w = if t == 0 {
                            GenericDatumWriter::builder(&schema).human_readable(false).build()
                        } else {
                            GenericDatumWriter::builder(&schema).human_readable(false).target_block_size(t).build()
                        }
                        .map_err(|e| e.to_string())?;
                        let mut buf = Vec::new();
                        let n = w.write_ser(&mut buf, &subject).map_err(|e| e.to_string())?;
                        Ok((n, buf))
                    })));
                    let ok = ser["ok"] == true;
                    let mut all = j_bytes(&ser["wire"]);
                    all.extend_from_slice(&[0xAA, 0xBB, 0xCC]);
                    // reading is the real thing: T's own Deserialize against the schema-aware deserializer
                    let de = if ok {
                        back_result(guarded(AssertUnwindSafe(|| {
                            let r = GenericDatumReader::builder(&schema).human_readable(false).build().map_err(|e| e.to_string())?;
                            let mut slice: &[u8] = &all;
                            let back: T = r.read_deser(&mut slice).map_err(|e| e.to_string())?;
                            Ok((project(&back), all.len() - slice.len()))
                        })))
                    } else {
                        back_result(Ok(Err("not run".into())))
                    };
                    let generic = if ok {
                        gen_result(guarded(AssertUnwindSafe(|| {
                            let r = GenericDatumReader::builder(&schema).build().map_err(|e| e.to_string())?;
                            let mut slice: &[u8] = &all;
                            let val = r.read_value(&mut slice).map_err(|e| e.to_string())?;
                            Ok((val, all.len() - slice.len()))
                        })))
                    } else {
                        gen_result(Ok(Err("not run".into())))
                    };
                    runs.push(json!({"t": small(t), "ser": ser, "de": de, "gen": generic}));
                }
                v["runs"] = J::Array(runs);
                // container file: append_ser -> Reader -> typed items (read shape-directed, see Shaped)
                v["file"] = back_result(guarded(AssertUnwindSafe(|| {
                    let mut w = Writer::new(&schema, Vec::new()).map_err(|e| format!("writer: {e}"))?;
                    w.append_ser(&subject).map_err(|e| format!("append_ser: {e}"))?;
                    let bytes = w.into_inner().map_err(|e| format!("into_inner: {e}"))?;
                    let r = Reader::new(&bytes[..]).map_err(|e| format!("reader: {e}"))?;
                    let mut items: Vec<Shaped> = vec![];
                    for it in r.into_deser_iter::<Shaped>() {
                        items.push(it.map_err(|e| format!("item: {e}"))?);
                    }
                    if items.len() != 1 {
                        return Err(format!("{} items read back", items.len()));
                    }
                    Ok((items[0].0.to_term(), items.len()))
                })));
                set_shape(None);
            }
        }
        vals.push(v);
    }
    ev["vals"] = J::Array(vals);
    ev
}

fn collect_field_aliases(s: &J, out: &mut Vec<(String, String)>) {
    match s {
        J::Object(o) => {
            if o.get("k").and_then(|k| k.as_str()) == Some("record") {
                for f in o.get("fields").and_then(|f| f.as_array()).cloned().unwrap_or_default() {
                    for a in f["aliases"].as_array().cloned().unwrap_or_default() {
                        if let (Some(a), Some(n)) = (a.as_str(), f["name"].as_str()) {
                            out.push((a.to_string(), n.to_string()));
                        }
                    }
                }
            }
            o.values().for_each(|v| collect_field_aliases(v, out));
        }
        J::Array(a) => a.iter().for_each(|v| collect_field_aliases(v, out)),
        _ => {}
    }
}

pub type Runner = fn(&J) -> J;

fn unexecuted(scn: &J, supported: bool, why: &str) -> J {
    json!({"ev":"derive","name":scn["name"],"root":scn["root"],"defs":scn["defs"],"supported":supported,
           "schema":{"ok":false,"term":{"k":"none"},"err":why},
           "again":{"ok":false,"term":{"k":"none"},"err":why},
           "json":{"ok":false,"term":{"k":"none"},"err":"","same":false,"text":""},"vals":[]})
}

/// main of the generated corpus crate: `derive-run --scn FILE --out FILE`
pub fn main_with(registry: &[(&str, Runner)]) -> i32 {
    quiet_panics();
    let a = parse_args();
    match a.cmd.as_str() {
        "names" => {
            for (n, _) in registry {
                println!("{n}");
            }
            0
        }
        // one scenario from stdin, its event to stdout (child of `derive-run`)
        "derive-one" => {
            let mut line = String::new();
            std::io::stdin().read_line(&mut line).ok();
            let scn: J = match serde_json::from_str(&line) {
                Ok(j) => j,
                Err(e) => {
                    eprintln!("bad scenario: {e}");
                    return 2;
                }
            };
            let name = scn["name"].as_str().unwrap_or("");
            let ev = match registry.iter().find(|(n, _)| *n == name) {
                Some((_, f)) => f(&scn),
                // the definition did not compile (the glue left it out): recorded, judged as drift
                None => unexecuted(&scn, false, "not compiled"),
            };
            println!("{ev}");
            0
        }
        // every scenario in its own child process: a stack overflow or abort in derived code is data, not a tool failure
        "derive-run" => {
            let lines = read_lines(a.req("scn"));
            let mut out = open_out(a.req("out"));
            let exe = std::env::current_exe().expect("current_exe");
            for (idx, line) in lines.iter().enumerate() {
                let scn: J = match serde_json::from_str(line) {
                    Ok(j) => j,
                    Err(e) => {
                        eprintln!("bad scenario line {idx}: {e}");
                        return 2;
                    }
                };
                use std::process::{Command, Stdio};
                let mut child = Command::new(&exe).arg("derive-one").stdin(Stdio::piped()).stdout(Stdio::piped()).stderr(Stdio::null())
                    .spawn().expect("spawn child");
                child.stdin.take().unwrap().write_all(format!("{line}\n").as_bytes()).ok();
                let o = child.wait_with_output().expect("child output");
                let text = String::from_utf8_lossy(&o.stdout);
                let mut ev: J = match text.lines().last().and_then(|l| serde_json::from_str(l).ok()) {
                    Some(j) if o.status.success() => j,
                    _ => unexecuted(&scn, true, &format!("process died while deriving / executing: {}", o.status)),
                };
                ev["id"] = small(idx);
                ev["exp"] = scn["exp"].clone();
                writeln!(out, "{ev}").unwrap();
            }
            out.flush().unwrap();
            0
        }
        other => {
            eprintln!("unknown command {other:?}");
            2
        }
    }
}
