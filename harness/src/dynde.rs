//! A deserialization target that accepts whatever the deserializer offers (used to drive the
//! schema-aware deserializer over arbitrary schemas: C05/C06).

use serde::de::{Deserialize, Deserializer, EnumAccess, MapAccess, SeqAccess, VariantAccess, Visitor};
use std::fmt;

#[derive(Debug, Clone, PartialEq)]
pub enum Dyn {
    Unit,
    Bool(bool),
    I(i128),
    F32(u32),
    F64(u64),
    Str(String),
    Bytes(Vec<u8>),
    None,
    Some(Box<Dyn>),
    Seq(Vec<Dyn>),
    Map(Vec<(Dyn, Dyn)>),
    Variant(String),
}

struct DynVisitor;

impl<'de> Visitor<'de> for DynVisitor {
    type Value = Dyn;
    fn expecting(&self, f: &mut fmt::Formatter) -> fmt::Result {
        f.write_str("anything")
    }
    fn visit_bool<E>(self, v: bool) -> Result<Dyn, E> { Ok(Dyn::Bool(v)) }
    fn visit_i8<E>(self, v: i8) -> Result<Dyn, E> { Ok(Dyn::I(v as i128)) }
    fn visit_i16<E>(self, v: i16) -> Result<Dyn, E> { Ok(Dyn::I(v as i128)) }
    fn visit_i32<E>(self, v: i32) -> Result<Dyn, E> { Ok(Dyn::I(v as i128)) }
    fn visit_i64<E>(self, v: i64) -> Result<Dyn, E> { Ok(Dyn::I(v as i128)) }
    fn visit_i128<E>(self, v: i128) -> Result<Dyn, E> { Ok(Dyn::I(v)) }
    fn visit_u8<E>(self, v: u8) -> Result<Dyn, E> { Ok(Dyn::I(v as i128)) }
    fn visit_u16<E>(self, v: u16) -> Result<Dyn, E> { Ok(Dyn::I(v as i128)) }
    fn visit_u32<E>(self, v: u32) -> Result<Dyn, E> { Ok(Dyn::I(v as i128)) }
    fn visit_u64<E>(self, v: u64) -> Result<Dyn, E> { Ok(Dyn::I(v as i128)) }
    fn visit_u128<E>(self, v: u128) -> Result<Dyn, E> { Ok(Dyn::I(v as i128)) }
    fn visit_f32<E>(self, v: f32) -> Result<Dyn, E> { Ok(Dyn::F32(v.to_bits())) }
    fn visit_f64<E>(self, v: f64) -> Result<Dyn, E> { Ok(Dyn::F64(v.to_bits())) }
    fn visit_char<E>(self, v: char) -> Result<Dyn, E> { Ok(Dyn::Str(v.to_string())) }
    fn visit_str<E>(self, v: &str) -> Result<Dyn, E> { Ok(Dyn::Str(v.to_string())) }
    fn visit_string<E>(self, v: String) -> Result<Dyn, E> { Ok(Dyn::Str(v)) }
    fn visit_bytes<E>(self, v: &[u8]) -> Result<Dyn, E> { Ok(Dyn::Bytes(v.to_vec())) }
    fn visit_byte_buf<E>(self, v: Vec<u8>) -> Result<Dyn, E> { Ok(Dyn::Bytes(v)) }
    fn visit_none<E>(self) -> Result<Dyn, E> { Ok(Dyn::None) }
    fn visit_unit<E>(self) -> Result<Dyn, E> { Ok(Dyn::Unit) }
    fn visit_some<D: Deserializer<'de>>(self, d: D) -> Result<Dyn, D::Error> {
        Ok(Dyn::Some(Box::new(Dyn::deserialize(d)?)))
    }
    fn visit_newtype_struct<D: Deserializer<'de>>(self, d: D) -> Result<Dyn, D::Error> {
        Dyn::deserialize(d)
    }
    fn visit_seq<A: SeqAccess<'de>>(self, mut a: A) -> Result<Dyn, A::Error> {
        let mut v = vec![];
        while let Some(x) = a.next_element::<Dyn>()? {
            // keep a bounded sample; keep consuming (a runaway count must show up as a time-out,
            // not be masked by the harness)
            if v.len() < 64 {
                v.push(x);
            }
        }
        Ok(Dyn::Seq(v))
    }
    fn visit_map<A: MapAccess<'de>>(self, mut a: A) -> Result<Dyn, A::Error> {
        let mut v = vec![];
        while let Some(k) = a.next_key::<Dyn>()? {
            let x = a.next_value::<Dyn>()?;
            if v.len() < 64 {
                v.push((k, x));
            }
        }
        Ok(Dyn::Map(v))
    }
    fn visit_enum<A: EnumAccess<'de>>(self, a: A) -> Result<Dyn, A::Error> {
        let (name, va) = a.variant_seed(IdentSeed)?;
        va.unit_variant()?;
        Ok(Dyn::Variant(name))
    }
}

/// variant / field identifiers must be requested with `deserialize_identifier`
struct IdentSeed;
struct IdentVisitor;
impl<'de> Visitor<'de> for IdentVisitor {
    type Value = String;
    fn expecting(&self, f: &mut fmt::Formatter) -> fmt::Result {
        f.write_str("an identifier")
    }
    fn visit_str<E>(self, v: &str) -> Result<String, E> { Ok(v.to_string()) }
    fn visit_string<E>(self, v: String) -> Result<String, E> { Ok(v) }
    fn visit_u64<E>(self, v: u64) -> Result<String, E> { Ok(v.to_string()) }
    fn visit_u32<E>(self, v: u32) -> Result<String, E> { Ok(v.to_string()) }
    fn visit_bytes<E>(self, v: &[u8]) -> Result<String, E> { Ok(String::from_utf8_lossy(v).to_string()) }
}
impl<'de> serde::de::DeserializeSeed<'de> for IdentSeed {
    type Value = String;
    fn deserialize<D: Deserializer<'de>>(self, d: D) -> Result<String, D::Error> {
        d.deserialize_identifier(IdentVisitor)
    }
}

impl<'de> Deserialize<'de> for Dyn {
    fn deserialize<D: Deserializer<'de>>(d: D) -> Result<Dyn, D::Error> {
        d.deserialize_any(DynVisitor)
    }
}
