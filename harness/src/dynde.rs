//! A deserialization target that accepts whatever the deserializer offers (used to drive the
//! schema-aware deserializer over arbitrary schemas: C05/C06).

use serde::de::{Deserialize, Deserializer, EnumAccess, MapAccess, SeqAccess, VariantAccess, Visitor};
use std::fmt;

#[derive(Debug, Clone, PartialEq)]
pub enum Dyn {
    Unit,
    Bool(bool),
    I(i128),
    F32(u32),
    F64(u64),
    Str(String),
    Bytes(Vec<u8>),
    None,
    Some(Box<Dyn>),
    Seq(Vec<Dyn>),
    Map(Vec<(Dyn, Dyn)>),
    Variant(String),
}

struct DynVisitor;

impl<'de> Visitor<'de> for DynVisitor {
    type Value = Dyn;
    fn expecting(&self, f: &mut fmt::Formatter) -> fmt::Result {
        f.write_str("anything")
    }
    fn visit_bool<E>(self, v: bool) -> Result<Dyn, E> { Ok(Dyn::Bool(v)) }
    fn visit_i8<E>(self, v: i8) -> Result<Dyn, E> { Ok(Dyn::I(v as i128)) }
    fn visit_i16<E>(self, v: i16) -> Result<Dyn, E> { Ok(Dyn::I(v as i128)) }
    fn visit_i32<E>(self, v: i32) -> Result<Dyn, E> { Ok(Dyn::I(v as i128)) }
    fn visit_i64<E>(self, v: i64) -> Result<Dyn, E> { Ok(Dyn::I(v as i128)) }
    fn visit_i128<E>(self, v: i128) -> Result<Dyn, E> { Ok(Dyn::I(v)) }
    fn visit_u8<E>(self, v: u8) -> Result<Dyn, E> { Ok(Dyn::I(v as i128)) }
    fn visit_u16<E>(self, v: u16) -> Result<Dyn, E> { Ok(Dyn::I(v as i128)) }
    fn visit_u32<E>(self, v: u32) -> Result<Dyn, E> { Ok(Dyn::I(v as i128)) }
    fn visit_u64<E>(self, v: u64) -> Result<Dyn, E> { Ok(Dyn::I(v as i128)) }
    fn visit_u128<E>(self, v: u128) -> Result<Dyn, E> { Ok(Dyn::I(v as i128)) }
    fn visit_f32<E>(self, v: f32) -> Result<Dyn, E> { Ok(Dyn::F32(v.to_bits())) }
    fn visit_f64<E>(self, v: f64) -> Result<Dyn, E> { Ok(Dyn::F64(v.to_bits())) }
    fn visit_char<E>(self, v: char) -> Result<Dyn, E> { Ok(Dyn::Str(v.to_string())) }
    fn visit_str<E>(self, v: &str) -> Result<Dyn, E> { Ok(Dyn::Str(v.to_string())) }
    fn visit_string<E>(self, v: String) -> Result<Dyn, E> { Ok(Dyn::Str(v)) }
    fn visit_bytes<E>(self, v: &[u8]) -> Result<Dyn, E> { Ok(Dyn::Bytes(v.to_vec())) }
    fn visit_byte_buf<E>(self, v: Vec<u8>) -> Result<Dyn, E> { Ok(Dyn::Bytes(v)) }
    fn visit_none<E>(self) -> Result<Dyn, E> { Ok(Dyn::None) }
    fn visit_unit<E>(self) -> Result<Dyn, E> { Ok(Dyn::Unit) }
    fn visit_some<D: Deserializer<'de>>(self, d: D) -> Result<Dyn, D::Error> {
        Ok(Dyn::Some(Box::new(Dyn::deserialize(d)?)))
    }
    fn visit_newtype_struct<D: Deserializer<'de>>(self, d: D) -> Result<Dyn, D::Error> {
        Dyn::deserialize(d)
    }
    fn visit_seq<A: SeqAccess<'de>>(self, mut a: A) -> Result<Dyn, A::Error> {
        let mut v = vec![];
        while let Some(x) = a.next_element::<Dyn>()? {
            // keep a bounded sample; keep consuming (a runaway count must show up as a time-out,
            // not be masked by the harness)
            if v.len() < 64 {
                v.push(x);
            }
        }
        Ok(Dyn::Seq(v))
    }
    fn visit_map<A: MapAccess<'de>>(self, mut a: A) -> Result<Dyn, A::Error> {
        let mut v = vec![];
        while let Some(k) = a.next_key::<Dyn>()? {
            let x = a.next_value::<Dyn>()?;
            if v.len() < 64 {
                v.push((k, x));
            }
        }
        Ok(Dyn::Map(v))
    }
    fn visit_enum<A: EnumAccess<'de>>(self, a: A) -> Result<Dyn, A::Error> {
        let (name, va) = a.variant_seed(IdentSeed)?;
        va.unit_variant()?;
        Ok(Dyn::Variant(name))
    }
}

/// variant / field identifiers must be requested with `deserialize_identifier`
struct IdentSeed;
struct IdentVisitor;
impl<'de> Visitor<'de> for IdentVisitor {
    type Value = String;
    fn expecting(&self, f: &mut fmt::Formatter) -> fmt::Result {
        f.write_str("an identifier")
    }
    fn visit_str<E>(self, v: &str) -> Result<String, E> { Ok(v.to_string()) }
    fn visit_string<E>(self, v: String) -> Result<String, E> { Ok(v) }
    fn visit_u64<E>(self, v: u64) -> Result<String, E> { Ok(v.to_string()) }
    fn visit_u32<E>(self, v: u32) -> Result<String, E> { Ok(v.to_string()) }
    fn visit_bytes<E>(self, v: &[u8]) -> Result<String, E> { Ok(String::from_utf8_lossy(v).to_string()) }
}
impl<'de> serde::de::DeserializeSeed<'de> for IdentSeed {
    type Value = String;
    fn deserialize<D: Deserializer<'de>>(self, d: D) -> Result<String, D::Error> {
        d.deserialize_identifier(IdentVisitor)
    }
}

impl<'de> Deserialize<'de> for Dyn {
    fn deserialize<D: Deserializer<'de>>(d: D) -> Result<Dyn, D::Error> {
        d.deserialize_any(DynVisitor)
    }
}

/// Like `Dyn`, but every second entry of a map (records arrive as maps) and every second element of a
/// sequence is taken as `serde::de::IgnoredAny` - what a Rust type lacking those fields asks for.
/// `PAR` = 0 skips the even positions (0, 2, ..), 1 the odd ones.  Nothing is kept: only the outcome
/// and the number of bytes consumed are observed.
#[derive(Debug, Clone, PartialEq)]
pub struct DynSkip<const PAR: usize>;

struct SkipVisitor<const PAR: usize>;

impl<'de, const PAR: usize> Visitor<'de> for SkipVisitor<PAR> {
    type Value = DynSkip<PAR>;
    fn expecting(&self, f: &mut fmt::Formatter) -> fmt::Result {
        f.write_str("anything")
    }
    fn visit_bool<E>(self, _: bool) -> Result<Self::Value, E> { Ok(DynSkip) }
    fn visit_i64<E>(self, _: i64) -> Result<Self::Value, E> { Ok(DynSkip) }
    fn visit_i128<E>(self, _: i128) -> Result<Self::Value, E> { Ok(DynSkip) }
    fn visit_u64<E>(self, _: u64) -> Result<Self::Value, E> { Ok(DynSkip) }
    fn visit_u128<E>(self, _: u128) -> Result<Self::Value, E> { Ok(DynSkip) }
    fn visit_f32<E>(self, _: f32) -> Result<Self::Value, E> { Ok(DynSkip) }
    fn visit_f64<E>(self, _: f64) -> Result<Self::Value, E> { Ok(DynSkip) }
    fn visit_char<E>(self, _: char) -> Result<Self::Value, E> { Ok(DynSkip) }
    fn visit_str<E>(self, _: &str) -> Result<Self::Value, E> { Ok(DynSkip) }
    fn visit_bytes<E>(self, _: &[u8]) -> Result<Self::Value, E> { Ok(DynSkip) }
    fn visit_none<E>(self) -> Result<Self::Value, E> { Ok(DynSkip) }
    fn visit_unit<E>(self) -> Result<Self::Value, E> { Ok(DynSkip) }
    fn visit_some<D: Deserializer<'de>>(self, d: D) -> Result<Self::Value, D::Error> {
        DynSkip::<PAR>::deserialize(d)
    }
    fn visit_newtype_struct<D: Deserializer<'de>>(self, d: D) -> Result<Self::Value, D::Error> {
        DynSkip::<PAR>::deserialize(d)
    }
    fn visit_seq<A: SeqAccess<'de>>(self, mut a: A) -> Result<Self::Value, A::Error> {
        let mut i = 0usize;
        loop {
            let more = if i % 2 == PAR {
                a.next_element::<serde::de::IgnoredAny>()?.is_some()
            } else {
                a.next_element::<DynSkip<PAR>>()?.is_some()
            };
            if !more {
                return Ok(DynSkip);
            }
            i += 1;
        }
    }
    fn visit_map<A: MapAccess<'de>>(self, mut a: A) -> Result<Self::Value, A::Error> {
        let mut i = 0usize;
        while a.next_key::<Dyn>()?.is_some() {
            if i % 2 == PAR {
                a.next_value::<serde::de::IgnoredAny>()?;
            } else {
                a.next_value::<DynSkip<PAR>>()?;
            }
            i += 1;
        }
        Ok(DynSkip)
    }
    fn visit_enum<A: EnumAccess<'de>>(self, a: A) -> Result<Self::Value, A::Error> {
        let (_name, va) = a.variant_seed(IdentSeed)?;
        va.unit_variant()?;
        Ok(DynSkip)
    }
}

impl<'de, const PAR: usize> Deserialize<'de> for DynSkip<PAR> {
    fn deserialize<D: Deserializer<'de>>(d: D) -> Result<Self, D::Error> {
        d.deserialize_any(SkipVisitor::<PAR>)
    }
}
