//! Shared library of the verification harness: bridge encodings, generators, argument parsing.
//!
//! The harness never decides pass/fail.  It executes scenarios against the real crate and
//! records what happened as ndjson; the TLA+ trace specifications under /verif/spec judge it.
//! One binary per family of properties lives under src/bin/ (cargo discovers them).

pub mod c16;
pub mod c17;
pub mod container;
pub mod datum;
pub mod dynde;
pub mod generate;
pub mod jsontree;
pub mod schemajson;
pub mod sv;
pub mod term;
pub mod validate;

use std::collections::HashMap;
use std::io::{BufRead, Write};

pub struct Args {
    pub cmd: String,
    pub pos: Vec<String>,
    pub kv: HashMap<String, String>,
}
impl Args {
    pub fn get(&self, k: &str) -> Option<&str> {
        self.kv.get(k).map(|s| s.as_str())
    }
    pub fn usize(&self, k: &str, d: usize) -> usize {
        self.get(k).and_then(|s| s.parse().ok()).unwrap_or(d)
    }
    pub fn u64(&self, k: &str, d: u64) -> u64 {
        self.get(k).and_then(|s| s.parse().ok()).unwrap_or(d)
    }
    pub fn req(&self, k: &str) -> &str {
        self.get(k).unwrap_or_else(|| {
            eprintln!("missing --{k}");
            std::process::exit(2)
        })
    }
}

/// `<cmd> [--key value | --flag | positional]...`
pub fn parse_args() -> Args {
    let mut it = std::env::args().skip(1);
    let cmd = it.next().unwrap_or_default();
    let mut a = Args { cmd, pos: vec![], kv: HashMap::new() };
    let rest: Vec<String> = it.collect();
    let mut i = 0;
    while i < rest.len() {
        if let Some(k) = rest[i].strip_prefix("--") {
            if i + 1 < rest.len() && !rest[i + 1].starts_with("--") {
                a.kv.insert(k.to_string(), rest[i + 1].clone());
                i += 2;
            } else {
                a.kv.insert(k.to_string(), "true".to_string());
                i += 1;
            }
        } else {
            a.pos.push(rest[i].clone());
            i += 1;
        }
    }
    a
}

/// Run `f` catching panics; the panic message is data.
pub fn guarded<T, F: FnOnce() -> T + std::panic::UnwindSafe>(f: F) -> Result<T, String> {
    std::panic::catch_unwind(f).map_err(|e| {
        if let Some(s) = e.downcast_ref::<&str>() {
            s.to_string()
        } else if let Some(s) = e.downcast_ref::<String>() {
            s.clone()
        } else {
            "panic".to_string()
        }
    })
}

/// panics of the code under test are data; keep stderr quiet
pub fn quiet_panics() {
    if std::env::var_os("AVH_LOUD").is_some() {
        return;
    }
    std::panic::set_hook(Box::new(|_| {}));
}

pub fn open_out(path: &str) -> Box<dyn Write> {
    if path == "-" {
        Box::new(std::io::BufWriter::new(std::io::stdout()))
    } else {
        Box::new(std::io::BufWriter::new(std::fs::File::create(path).expect("create out")))
    }
}

pub fn read_lines(path: &str) -> Vec<String> {
    let f = std::fs::File::open(path).unwrap_or_else(|e| {
        eprintln!("cannot open {path}: {e}");
        std::process::exit(2)
    });
    std::io::BufReader::new(f).lines().map(|l| l.unwrap()).filter(|l| !l.trim().is_empty()).collect()
}
