//! Harness-side helpers for container files: a shared in-memory sink and a file splitter.
//! The splitter is an instrument for observing intermediate sink states (which complete blocks
//! exist after each Writer operation); format conformance itself is judged in TLA+ (Container.tla).

use apache_avro::reader::datum::GenericDatumReader;
use apache_avro::types::Value;
use apache_avro::writer::Clearable;
use apache_avro::{Codec, Schema};
use std::cell::RefCell;
use std::io::Write;
use std::rc::Rc;

#[derive(Clone, Default)]
/// `.1` = number of upcoming `flush()` calls that fail (the bytes written before them have been accepted)
pub struct SharedSink(pub Rc<RefCell<Vec<u8>>>, pub Rc<std::cell::Cell<u32>>);
impl SharedSink {
    pub fn new() -> Self {
        SharedSink(Rc::new(RefCell::new(Vec::new())), Rc::new(std::cell::Cell::new(0)))
    }
    pub fn bytes(&self) -> Vec<u8> {
        self.0.borrow().clone()
    }
}
impl Write for SharedSink {
    fn write(&mut self, buf: &[u8]) -> std::io::Result<usize> {
        self.0.borrow_mut().extend_from_slice(buf);
        Ok(buf.len())
    }
    fn flush(&mut self) -> std::io::Result<()> {
        if self.1.get() > 0 {
            self.1.set(self.1.get() - 1);
            return Err(std::io::Error::other("harness: the sink's flush fails"));
        }
        Ok(())
    }
}
impl Clearable for SharedSink {
    fn clear(&mut self) {
        self.0.borrow_mut().clear();
    }
}

pub struct Split {
    pub headers: usize,
    pub marker: [u8; 16],
    pub meta: Vec<(Vec<u8>, Vec<u8>)>,
    pub blocks: Vec<Vec<Value>>,
    /// raw (count, stored payload) of every complete block
    pub raw_blocks: Vec<(i64, Vec<u8>)>,
    /// offsets of: end of header, end of each complete block
    pub boundaries: Vec<usize>,
    /// bytes after the last complete segment that do not form a complete block
    pub trailing: usize,
    pub markers_same: bool,
}

pub fn read_long(b: &[u8], pos: &mut usize) -> Option<i64> {
    let mut z: u64 = 0;
    let mut shift = 0;
    loop {
        let byte = *b.get(*pos)?;
        *pos += 1;
        if shift < 64 {
            z |= ((byte & 0x7f) as u64) << shift;
        }
        shift += 7;
        if byte & 0x80 == 0 {
            break;
        }
        if shift > 70 {
            return None;
        }
    }
    Some(((z >> 1) as i64) ^ -((z & 1) as i64))
}

fn read_header(b: &[u8], pos: &mut usize, meta: &mut Vec<(Vec<u8>, Vec<u8>)>) -> Option<[u8; 16]> {
    if b.len() < *pos + 4 || &b[*pos..*pos + 4] != b"Obj\x01" {
        return None;
    }
    *pos += 4;
    loop {
        let mut n = read_long(b, pos)?;
        if n == 0 {
            break;
        }
        if n < 0 {
            let _size = read_long(b, pos)?;
            n = -n;
        }
        for _ in 0..n {
            let kl = read_long(b, pos)? as usize;
            let k = b.get(*pos..*pos + kl)?.to_vec();
            *pos += kl;
            let vl = read_long(b, pos)? as usize;
            let v = b.get(*pos..*pos + vl)?.to_vec();
            *pos += vl;
            meta.push((k, v));
        }
    }
    let m = b.get(*pos..*pos + 16)?;
    *pos += 16;
    let mut marker = [0u8; 16];
    marker.copy_from_slice(m);
    Some(marker)
}

pub fn split_file(b: &[u8], schema: &Schema, codec: Codec) -> Result<Split, String> {
    let mut sp = Split { headers: 0, marker: [0; 16], meta: vec![], blocks: vec![], raw_blocks: vec![], boundaries: vec![],
                         trailing: 0, markers_same: true };
    if b.is_empty() {
        return Ok(sp);
    }
    let mut pos = 0;
    sp.marker = read_header(b, &mut pos, &mut sp.meta).ok_or("bad header")?;
    sp.headers = 1;
    sp.boundaries.push(pos);
    let reader = GenericDatumReader::builder(schema).build().map_err(|e| e.to_string())?;
    while pos < b.len() {
        if b[pos..].starts_with(b"Obj\x01") {
            // a second header in the stream
            let mut p2 = pos;
            let mut m2 = vec![];
            if let Some(mk) = read_header(b, &mut p2, &mut m2) {
                sp.headers += 1;
                if mk != sp.marker {
                    sp.markers_same = false;
                }
                pos = p2;
                sp.boundaries.push(pos);
                continue;
            }
        }
        let start = pos;
        let mut p = pos;
        let (Some(count), Some(size)) = (read_long(b, &mut p), read_long(b, &mut p)) else {
            sp.trailing = b.len() - start;
            break;
        };
        if size < 0 || p + size as usize + 16 > b.len() {
            sp.trailing = b.len() - start;
            break;
        }
        let payload = b[p..p + size as usize].to_vec();
        p += size as usize;
        if b[p..p + 16] != sp.marker {
            sp.markers_same = false;
        }
        p += 16;
        pos = p;
        sp.boundaries.push(pos);
        sp.raw_blocks.push((count, payload.clone()));
        let mut plain = payload;
        let mut items = vec![];
        if codec.decompress(&mut plain).is_ok() {
            let mut slice: &[u8] = &plain;
            for _ in 0..count.max(0) {
                match reader.read_value(&mut slice) {
                    Ok(v) => items.push(v),
                    Err(_) => {
                        items.push(Value::Null);
                        break;
                    }
                }
            }
            if !slice.is_empty() {
                items.push(Value::Null); // leftover bytes in the block: show up as an unknown item
            }
        } else {
            items.push(Value::Null);
        }
        sp.blocks.push(items);
    }
    Ok(sp)
}
