//! C16: schema-aware serde writer/reader vs. the generic-value route.
//!
//! `serde-run --scn FILE --out FILE`: each scenario line is {sv, s, corpus}.  `corpus == ""`:
//! the term itself is the subject (dynamic serde value `SV`).  Otherwise a value of the named
//! real Rust type (all `#[derive(Serialize, Deserialize)]`) is BUILT from the term and is the
//! subject; the recorded `sv` is then what that value really serializes as (capturing serializer).
//! For every target block size: write_ser (bytes + returned count), read_deser over bytes ∘
//! sentinel (re-projected to a term), generic read_value; then the generic route: to_value ->
//! resolve -> write_value, and read_value -> from_value.  Nothing is judged here.

use crate::generate::env_of;
use crate::sv::*;
use crate::term::*;
use crate::{Args, guarded, open_out, read_lines};
use apache_avro::Schema;
use apache_avro::reader::datum::GenericDatumReader;
use apache_avro::writer::datum::GenericDatumWriter;
use serde::de::{DeserializeOwned, DeserializeSeed};
use serde::{Deserialize, Serialize};
use serde_json::{Value as J, json};
use std::cell::RefCell;
use std::collections::{BTreeMap, HashMap};
use std::io::Write;
use std::panic::AssertUnwindSafe;

pub const TARGETS: [usize; 4] = [0, 1, 8, 1_000_000];
const SENTINEL: [u8; 3] = [0xAA, 0xBB, 0xCC];

// ---------------------------------------------------------------------------------------------
// schema term -> JSON text (markers in defaults, rust attributes)
// ---------------------------------------------------------------------------------------------
fn demark_json(j: &J) -> J {
    match j {
        J::String(s) if s == "@null" => J::Null,
        J::String(s) if s == "@obj" => json!({}),
        J::String(s) if s.starts_with("@f:") => serde_json::from_str(&s[3..]).unwrap_or(J::Null),
        J::String(s) if s.starts_with("@b:") => {
            let hex = &s[3..];
            let mut out = String::new();
            for i in (0..hex.len()).step_by(2) {
                let b = u8::from_str_radix(&hex[i..i + 2], 16).unwrap_or(0);
                out.push(char::from_u32(b as u32).unwrap());
            }
            J::String(out)
        }
        J::Array(a) => J::Array(a.iter().map(demark_json).collect()),
        J::Object(o) => J::Object(o.iter().map(|(k, v)| (k.clone(), demark_json(v))).collect()),
        other => other.clone(),
    }
}

fn demark_schema(s: &J, attrs: &mut Vec<(String, &'static str)>) -> J {
    match s {
        J::Object(o) => {
            let mut out = serde_json::Map::new();
            for (k, v) in o {
                if k == "defjson" {
                    out.insert(k.clone(), demark_json(v));
                } else if k == "def" {
                    out.insert(k.clone(), v.clone());
                } else {
                    out.insert(k.clone(), demark_schema(v, attrs));
                }
            }
            if o.get("k").and_then(|k| k.as_str()) == Some("record") {
                let name = o.get("name").and_then(|n| n.as_str()).unwrap_or("").to_string();
                if o.get("tuple") == Some(&J::Bool(true)) {
                    attrs.push((name.clone(), "org.apache.avro.rust.tuple"));
                }
                if o.get("uor") == Some(&J::Bool(true)) {
                    attrs.push((name, "org.apache.avro.rust.union_of_records"));
                }
            }
            J::Object(out)
        }
        J::Array(a) => J::Array(a.iter().map(|x| demark_schema(x, attrs)).collect()),
        other => other.clone(),
    }
}

fn add_attrs(j: &mut J, attrs: &[(String, &'static str)]) {
    match j {
        J::Object(o) => {
            if o.get("type").and_then(|t| t.as_str()) == Some("record") {
                let name = o.get("name").and_then(|n| n.as_str()).unwrap_or("");
                let full = match o.get("namespace").and_then(|n| n.as_str()) {
                    Some(ns) if !ns.is_empty() && !name.contains('.') => format!("{ns}.{name}"),
                    _ => name.to_string(),
                };
                for (n, a) in attrs {
                    if *n == full {
                        o.insert(a.to_string(), J::Bool(true));
                    }
                }
            }
            for (_, v) in o.iter_mut() {
                add_attrs(v, attrs);
            }
        }
        J::Array(a) => a.iter_mut().for_each(|x| add_attrs(x, attrs)),
        _ => {}
    }
}

pub fn render_serde_schema(s: &J) -> String {
    let mut attrs = vec![];
    let s2 = demark_schema(s, &mut attrs);
    let mut r = Render::new(0);
    let mut j = r.schema(&s2, None);
    add_attrs(&mut j, &attrs);
    serde_json::to_string(&j).unwrap()
}

fn collect_aliases(s: &J, out: &mut Vec<(String, String)>) {
    match s {
        J::Object(o) => {
            if let (Some(n), Some(al)) = (o.get("name").and_then(|n| n.as_str()), o.get("aliases").and_then(|a| a.as_array())) {
                if o.contains_key("type") {
                    for a in al {
                        if let Some(a) = a.as_str() {
                            out.push((a.to_string(), n.to_string()));
                        }
                    }
                }
            }
            o.values().for_each(|v| collect_aliases(v, out));
        }
        J::Array(a) => a.iter().for_each(|v| collect_aliases(v, out)),
        _ => {}
    }
}

// ---------------------------------------------------------------------------------------------
// the dynamic subject: SV with a thread-local shape for Deserialize
// ---------------------------------------------------------------------------------------------
thread_local! {
    static SHAPE: RefCell<Option<SV>> = const { RefCell::new(None) };
}
/// set the shape the next `Shaped::deserialize` calls on this thread follow
pub fn set_shape(sv: Option<SV>) {
    SHAPE.with(|sh| *sh.borrow_mut() = sv);
}
#[derive(Debug, Clone)]
pub struct Shaped(pub SV);
impl Serialize for Shaped {
    fn serialize<S: serde::Serializer>(&self, s: S) -> Result<S::Ok, S::Error> {
        self.0.serialize(s)
    }
}
impl<'de> Deserialize<'de> for Shaped {
    fn deserialize<D: serde::Deserializer<'de>>(d: D) -> Result<Self, D::Error> {
        SHAPE.with(|sh| {
            let g = sh.borrow();
            Seed(g.as_ref()).deserialize(d).map(Shaped)
        })
    }
}

// ---------------------------------------------------------------------------------------------
// one subject through all routes
// ---------------------------------------------------------------------------------------------
pub fn ser_result(r: Result<Result<(usize, Vec<u8>), String>, String>) -> J {
    match r {
        Ok(Ok((n, w))) => json!({"ok":true,"panic":false,"wire":bytes_j(&w),"n":small(n),"err":""}),
        Ok(Err(e)) => json!({"ok":false,"panic":false,"wire":[],"n":0,"err":e}),
        Err(p) => json!({"ok":false,"panic":true,"wire":[],"n":0,"err":p}),
    }
}
pub fn back_result(r: Result<Result<(J, usize), String>, String>) -> J {
    match r {
        Ok(Ok((t, c))) => json!({"ok":true,"panic":false,"back":t,"consumed":small(c),"err":""}),
        Ok(Err(e)) => json!({"ok":false,"panic":false,"back":undef_term(),"consumed":0,"err":e}),
        Err(p) => json!({"ok":false,"panic":true,"back":undef_term(),"consumed":0,"err":p}),
    }
}
pub fn gen_result(r: Result<Result<(apache_avro::types::Value, usize), String>, String>) -> J {
    match r {
        Ok(Ok((v, c))) => json!({"ok":true,"panic":false,"v":value_to_vterm(&v),"consumed":small(c),"err":""}),
        Ok(Err(e)) => json!({"ok":false,"panic":false,"v":none_term(),"consumed":0,"err":e}),
        Err(p) => json!({"ok":false,"panic":true,"v":none_term(),"consumed":0,"err":p}),
    }
}

/// `project`: value -> the term of what it serializes as (schema-guided re-tagging included)
/// does the schema contain an array or a map (only then does the block size setting matter)?
pub fn schema_has_blocks(s: &J) -> bool {
    match s {
        J::Object(o) => {
            matches!(o.get("k").and_then(|k| k.as_str()), Some("array") | Some("map")) || o.iter().any(|(k, v)| k != "def" && k != "defjson" && schema_has_blocks(v))
        }
        J::Array(a) => a.iter().any(schema_has_blocks),
        _ => false,
    }
}

pub fn run_subject<T: Serialize + DeserializeOwned>(value: &T, schema: &Schema, project: &dyn Fn(&T) -> J, blocks: bool) -> (J, J, J) {
    run_subject_with(value, schema, project, if blocks { &TARGETS } else { &TARGETS[..1] })
}

pub fn run_subject_with<T: Serialize + DeserializeOwned>(value: &T, schema: &Schema, project: &dyn Fn(&T) -> J, targets: &[usize]) -> (J, J, J) {
    let mut runs = vec![];
    let mut first_wire: Option<Vec<u8>> = None;
    for &t in targets {
        let ser = ser_result(guarded(AssertUnwindSafe(|| {
            let w = if t == 0 {
                GenericDatumWriter::builder(schema).human_readable(false).build()
            } else {
                GenericDatumWriter::builder(schema).human_readable(false).target_block_size(t).build()
            }
            .map_err(|e| e.to_string())?;
            let mut buf = Vec::new();
            let n = w.write_ser(&mut buf, value).map_err(|e| e.to_string())?;
            Ok((n, buf))
        })));
        let wire = j_bytes(&ser["wire"]);
        let ok = ser["ok"] == true;
        if ok && first_wire.is_none() {
            first_wire = Some(wire.clone());
        }
        let mut all = wire.clone();
        all.extend_from_slice(&SENTINEL);
        let de = if ok {
            back_result(guarded(AssertUnwindSafe(|| {
                let r = GenericDatumReader::builder(schema).human_readable(false).build().map_err(|e| e.to_string())?;
                let mut slice: &[u8] = &all;
                let back: T = r.read_deser(&mut slice).map_err(|e| e.to_string())?;
                Ok((project(&back), all.len() - slice.len()))
            })))
        } else {
            back_result(Ok(Err("not run".into())))
        };
        let generic = if ok {
            gen_result(guarded(AssertUnwindSafe(|| {
                let r = GenericDatumReader::builder(schema).build().map_err(|e| e.to_string())?;
                let mut slice: &[u8] = &all;
                let v = r.read_value(&mut slice).map_err(|e| e.to_string())?;
                Ok((v, all.len() - slice.len()))
            })))
        } else {
            gen_result(Ok(Err("not run".into())))
        };
        runs.push(json!({"t": small(t), "ser": ser, "de": de, "gen": generic}));
    }
    // route 2, writing: to_value -> resolve -> write_value
    let r2 = ser_result(guarded(AssertUnwindSafe(|| {
        let v = apache_avro::to_value(value).map_err(|e| format!("to_value: {e}"))?;
        let v = v.resolve(schema).map_err(|e| format!("resolve: {e}"))?;
        let w = GenericDatumWriter::builder(schema).build().map_err(|e| e.to_string())?;
        let mut buf = Vec::new();
        let n = w.write_value_ref(&mut buf, &v).map_err(|e| format!("write_value: {e}"))?;
        Ok((n, buf))
    })));
    // route 2, reading: read_value -> from_value
    let fv = match &first_wire {
        Some(wire) => back_result(guarded(AssertUnwindSafe(|| {
            let r = GenericDatumReader::builder(schema).build().map_err(|e| e.to_string())?;
            let mut slice: &[u8] = wire;
            let v = r.read_value(&mut slice).map_err(|e| format!("read_value: {e}"))?;
            let back: T = apache_avro::from_value(&v).map_err(|e| format!("from_value: {e}"))?;
            Ok((project(&back), wire.len() - slice.len()))
        }))),
        None => back_result(Ok(Err("not run".into()))),
    };
    (J::Array(runs), r2, fv)
}

// ---------------------------------------------------------------------------------------------
// the corpus of real types
// ---------------------------------------------------------------------------------------------
pub mod corpus {
    use super::*;
    macro_rules! d { ($($i:item)*) => { $( #[derive(Serialize, Deserialize, PartialEq, Debug, Clone)] $i )* } }
    d! {
        pub struct Ints { pub a: i8, pub b: i16, pub c: i32, pub d: i64 }
        pub struct Uints { pub a: u8, pub b: u16, pub c: u32 }
        pub struct Bigs { pub a: u64, pub b: i128, pub c: u128 }
        pub struct Floats { pub a: f32, pub b: f64 }
        pub struct Texts { pub a: char, pub b: String, pub c: bool }
        pub struct BytesS { #[serde(with = "serde_bytes")] pub a: Vec<u8>, pub z: i32 }
        pub struct Opts { pub a: Option<i32>, pub b: Option<String> }
        pub struct OptLast { pub a: Option<i32> }
        pub struct UnitS;
        pub struct Nt(pub i32);
        pub struct NtStr(pub String);
        pub struct Ts2(pub u16, pub char);
        pub struct Ts0();
        pub struct Seqs { pub a: Vec<i32>, pub b: Vec<String> }
        pub struct Inner { pub x: i32 }
        pub struct Inner2 { pub y: String }
        pub struct Inner3 { pub z: bool }
        pub struct Nest { pub i: Inner, pub v: Vec<Inner2>, pub o: Option<Inner3> }
        pub struct Maps { pub a: BTreeMap<String, i32>, pub b: HashMap<String, String> }
        pub struct Tup { pub t: (i32, String), pub u: () }
        pub struct Arr { pub a: [u8; 3] }
        pub enum E3 { A, B, C }
        pub struct WithEnum { pub e: E3, pub n: i32 }
        pub enum UorE { U0, N1(i32), T2(i32, String), S3 { a: i64, b: Option<String> } }
        pub enum BareE { U0, N1(i32), T2(i32, String), S3 { a: i64, b: Option<String> } }
        pub struct SkipIf { pub a: i32, #[serde(default, skip_serializing_if = "Option::is_none")] pub b: Option<i32>, pub c: String }
        pub struct SkipSer { #[serde(skip_serializing, default)] pub a: i32, pub b: String }
        pub struct SkipBoth { #[serde(skip)] pub hidden: i32, pub b: i64 }
        pub struct Renamed { #[serde(rename = "x")] pub a: i32, #[serde(rename = "type")] pub b: String }
        pub struct Aliased { #[serde(rename = "old_a", alias = "a")] pub a: i32, pub b: String }
        pub struct FlatInner { pub b: String, pub c: i64 }
        pub struct Flat { pub a: i32, #[serde(flatten)] pub rest: FlatInner }
        pub enum SvE { S { a: i32, #[serde(default, skip_serializing_if = "Option::is_none")] b: Option<i32> }, U }
        pub struct Deep { pub v: Vec<Vec<Option<i64>>>, pub m: BTreeMap<String, Vec<String>> }
    }
}

fn run_typed<T: Serialize + DeserializeOwned>(term: &SV, schema: &Schema, s: &J) -> Result<(J, J, J, J), String> {
    let value: T = build(term).map_err(|e| format!("build: {e}"))?;
    let env = env_of(s);
    let project = |v: &T| -> J {
        match capture(v) {
            Ok(sv) => retag_structmaps(sv, s, &env).to_term(),
            Err(e) => json!({"c":"undef","err":e.0}),
        }
    };
    let sv = project(&value);
    let (runs, r2, fv) = run_subject(&value, schema, &project, schema_has_blocks(s));
    Ok((sv, runs, r2, fv))
}

macro_rules! registry {
    ($($name:literal => $t:ty),* $(,)?) => {
        pub const CORPUS_NAMES: &[&str] = &[$($name),*];
        fn run_corpus(name: &str, term: &SV, schema: &Schema, s: &J) -> Option<Result<(J, J, J, J), String>> {
            match name {
                $($name => Some(run_typed::<$t>(term, schema, s)),)*
                _ => None,
            }
        }
    };
}
use corpus::*;
registry! {
    "Ints" => Ints, "Uints" => Uints, "Bigs" => Bigs, "Floats" => Floats, "Texts" => Texts, "BytesS" => BytesS,
    "Opts" => Opts, "OptLast" => OptLast, "UnitS" => UnitS, "Nt" => Nt, "NtStr" => NtStr, "Ts2" => Ts2, "Ts0" => Ts0,
    "Seqs" => Seqs, "Nest" => Nest, "Maps" => Maps, "Tup" => Tup, "Arr" => Arr, "E3" => E3, "WithEnum" => WithEnum,
    "UorE" => UorE, "BareE" => BareE, "SkipIf" => SkipIf, "SkipSer" => SkipSer, "SkipBoth" => SkipBoth,
    "Renamed" => Renamed, "Aliased" => Aliased, "Flat" => Flat, "SvE" => SvE, "Deep" => Deep,
    "VecI32" => Vec<i32>, "OptString" => Option<String>, "MapI64" => BTreeMap<String, i64>, "PairIS" => (i32, String),
    "I64" => i64, "StringT" => String, "UnitT" => (), "VecE3" => Vec<E3>, "ArrI16" => [i16; 2], "OptInner" => Option<Inner>,
}

/// `serde-run --scn FILE --out FILE`
pub fn cmd_run(a: &Args) -> i32 {
    let lines = read_lines(a.req("scn"));
    let mut out = open_out(a.req("out"));
    for (idx, line) in lines.iter().enumerate() {
        let scn: J = match serde_json::from_str(line) {
            Ok(j) => j,
            Err(e) => {
                eprintln!("bad scenario line {idx}: {e}");
                return 2;
            }
        };
        let s = &scn["s"];
        let corpus = scn["corpus"].as_str().unwrap_or("");
        let text = render_serde_schema(s);
        let parsed = guarded(|| Schema::parse_str(&text));
        let mut ev = json!({"ev":"serde","id":small(idx),"corpus":corpus,"sv":scn["sv"],"s":s,"text":text,
                            "parse_ok":true,"parse_err":"","build_ok":true,"build_err":"","repr_same":true,
                            "runs":[],"r2":ser_result(Ok(Err("not run".into()))),"fv":back_result(Ok(Err("not run".into())))});
        let schema = match parsed {
            Ok(Ok(sc)) => sc,
            other => {
                ev["parse_ok"] = J::from(false);
                ev["parse_err"] = J::from(match other { Ok(Err(e)) => e.to_string(), Err(p) => format!("panic: {p}"), _ => String::new() });
                writeln!(out, "{ev}").unwrap();
                continue;
            }
        };
        let mut al = vec![];
        collect_aliases(&serde_json::from_str::<J>(&text).unwrap(), &mut al);
        ALIASES.with(|x| *x.borrow_mut() = al);
        let term = SV::from_term(&scn["sv"]);
        if corpus.is_empty() {
            SHAPE.with(|sh| *sh.borrow_mut() = Some(term.clone()));
            let subject = Shaped(term);
            let project = |v: &Shaped| v.0.to_term();
            let (runs, r2, fv) = run_subject(&subject, &schema, &project, schema_has_blocks(s));
            ev["runs"] = runs;
            ev["r2"] = r2;
            ev["fv"] = fv;
        } else {
            match run_corpus(corpus, &term, &schema, s) {
                Some(Ok((sv, runs, r2, fv))) => {
                    // does the real type serialize as the model's term says? (modulo map entry order)
                    let model = retag_structmaps(term.clone(), s, &env_of(s));
                    ev["repr_same"] = J::from(sort_maps(&SV::from_term(&sv)).to_term() == sort_maps(&model).to_term()
                        || strip_struct_len(&sort_maps(&SV::from_term(&sv)).to_term()) == strip_struct_len(&sort_maps(&model).to_term()));
                    ev["sv"] = sv;
                    ev["runs"] = runs;
                    ev["r2"] = r2;
                    ev["fv"] = fv;
                }
                Some(Err(e)) => {
                    ev["build_ok"] = J::from(false);
                    ev["build_err"] = J::from(e);
                }
                None => {
                    eprintln!("unknown corpus type {corpus}");
                    return 2;
                }
            }
        }
        writeln!(out, "{ev}").unwrap();
    }
    out.flush().unwrap();
    0
}

/// the declared struct length and seq/map hints are bookkeeping of the Serialize impl, not of the value
fn strip_struct_len(j: &J) -> J {
    match j {
        J::Object(o) => J::Object(
            o.iter()
                .filter(|(k, _)| *k != "len" && *k != "hint")
                .map(|(k, v)| (k.clone(), strip_struct_len(v)))
                .collect(),
        ),
        J::Array(a) => J::Array(
            a.iter()
                // a skipped field and an absent one are the same to the type
                .filter(|x| !(x.is_array() && x.as_array().map(|p| p.len() == 2 && p[1]["c"] == "skip").unwrap_or(false)))
                .map(strip_struct_len)
                .collect(),
        ),
        other => other.clone(),
    }
}
