//! Shared by avh_c08 / avh_c09 (included with #[path]): rendering of schema terms that carry
//! defaults (JsonTree terms), aliases and enum defaults; execution of one (W, R, v) read through
//! the three entry points; a seeded generator of evolution-step sequences beyond the TLC bound.
//! Nothing here judges: results and errors are recorded as terms.
#![allow(dead_code)]

use apache_avro::reader::datum::GenericDatumReader;
use apache_avro::types::Value;
use apache_avro::{Reader, Schema, Writer};
use avro_verif_harness::datum::encode_with;
use avro_verif_harness::generate::Rng;
use avro_verif_harness::guarded;
use avro_verif_harness::term::*;
use serde_json::{Value as J, json};
use std::collections::{HashMap, HashSet};

// ---------------------------------------------------------------------------------------------
// JsonTree term -> serde_json value (strings from their UTF-8 code units `u`)
// ---------------------------------------------------------------------------------------------
pub fn tree_to_json(t: &J) -> J {
    match t["j"].as_str().unwrap_or("?") {
        "null" => J::Null,
        "bool" => J::Bool(t["bv"].as_bool().unwrap()),
        "int" => J::from(t["n"].as_i64().unwrap()),
        "num" => serde_json::from_str(t["text"].as_str().unwrap()).expect("num text"),
        "str" => J::String(String::from_utf8(j_bytes(&t["u"])).expect("utf8 in JStr.u")),
        "arr" => J::Array(t["items"].as_array().unwrap().iter().map(tree_to_json).collect()),
        "obj" => {
            let mut m = serde_json::Map::new();
            for p in t["kv"].as_array().unwrap() {
                m.insert(p[0].as_str().unwrap().to_string(), tree_to_json(&p[1]));
            }
            J::Object(m)
        }
        other => panic!("tree_to_json: bad tag {other}"),
    }
}

// ---------------------------------------------------------------------------------------------
// schema term -> Avro schema JSON.  The first occurrence of a named type in document order is
// rendered as its definition (also when the term has a `ref` there), later ones as the name.
// ---------------------------------------------------------------------------------------------
pub fn defs_of(s: &J, out: &mut HashMap<String, J>) {
    match sk(s) {
        "array" => defs_of(&s["items"], out),
        "map" => defs_of(&s["values"], out),
        "union" => s["branches"].as_array().unwrap().iter().for_each(|b| defs_of(b, out)),
        "record" => {
            out.insert(s["name"].as_str().unwrap().to_string(), s.clone());
            for f in s["fields"].as_array().unwrap() {
                defs_of(&f["type"], out);
            }
        }
        "enum" | "fixed" => {
            out.insert(s["name"].as_str().unwrap().to_string(), s.clone());
        }
        _ => {}
    }
}

pub struct Render2 {
    defined: HashSet<String>,
    env: HashMap<String, J>,
}

impl Render2 {
    pub fn schema(&mut self, s: &J) -> J {
        let k = sk(s);
        match k {
            "null" | "boolean" | "int" | "long" | "float" | "double" | "bytes" | "string" => J::from(k),
            "date" | "time-millis" => json!({"type":"int","logicalType":k}),
            "time-micros" | "timestamp-millis" | "timestamp-micros" | "timestamp-nanos"
            | "local-timestamp-millis" | "local-timestamp-micros" | "local-timestamp-nanos" => {
                json!({"type":"long","logicalType":k})
            }
            "array" => json!({"type":"array","items": self.schema(&s["items"])}),
            "map" => json!({"type":"map","values": self.schema(&s["values"])}),
            "union" => J::Array(s["branches"].as_array().unwrap().iter().map(|b| self.schema(b)).collect()),
            "ref" => {
                let n = s["name"].as_str().unwrap().to_string();
                if self.defined.contains(&n) {
                    J::from(n)
                } else {
                    let d = self.env.get(&n).unwrap_or_else(|| panic!("dangling ref {n}")).clone();
                    self.schema(&d)
                }
            }
            "record" | "enum" | "fixed" => {
                let full = s["name"].as_str().unwrap().to_string();
                assert!(full.contains('.'), "names in resolution universes are dotted full names: {full}");
                if self.defined.contains(&full) {
                    return J::from(full);
                }
                self.defined.insert(full.clone());
                let mut obj = serde_json::Map::new();
                obj.insert("type".into(), J::from(k));
                obj.insert("name".into(), J::from(full));
                match k {
                    "record" => {
                        let mut fs = vec![];
                        for f in s["fields"].as_array().unwrap() {
                            let mut fo = serde_json::Map::new();
                            fo.insert("name".into(), f["name"].clone());
                            fo.insert("type".into(), self.schema(&f["type"]));
                            if f.get("hasdef").and_then(|x| x.as_bool()) == Some(true) {
                                fo.insert("default".into(), tree_to_json(&f["defjson"]));
                            }
                            if let Some(al) = f.get("aliases").and_then(|x| x.as_array()) {
                                if !al.is_empty() {
                                    fo.insert("aliases".into(), J::Array(al.clone()));
                                }
                            }
                            fs.push(J::Object(fo));
                        }
                        obj.insert("fields".into(), J::Array(fs));
                    }
                    "enum" => {
                        obj.insert("symbols".into(), s["symbols"].clone());
                        if s.get("hasdef").and_then(|x| x.as_bool()) == Some(true) {
                            obj.insert("default".into(), s["def"].clone());
                        }
                    }
                    _ => {
                        obj.insert("size".into(), s["size"].clone());
                    }
                }
                J::Object(obj)
            }
            other => panic!("render2: schema kind {other} is outside the resolution fragment"),
        }
    }
}

pub fn render2(s: &J) -> String {
    let mut env = HashMap::new();
    defs_of(s, &mut env);
    let mut r = Render2 { defined: HashSet::new(), env };
    serde_json::to_string(&r.schema(s)).unwrap()
}

pub fn parse_term(s: &J) -> (String, Result<Schema, String>) {
    let text = match guarded(std::panic::AssertUnwindSafe(|| render2(s))) {
        Ok(t) => t,
        Err(p) => return (String::new(), Err(format!("render panic: {p}"))),
    };
    let r = match guarded(|| Schema::parse_str(&text)) {
        Ok(Ok(sc)) => Ok(sc),
        Ok(Err(e)) => Err(e.to_string()),
        Err(p) => Err(format!("panic: {p}")),
    };
    (text, r)
}

// ---------------------------------------------------------------------------------------------
// executing one read
// ---------------------------------------------------------------------------------------------
fn clip(s: String) -> String {
    if s.len() > 100 { s.chars().take(100).collect() } else { s }
}

/// Result terms of one case are stored once each in `terms` (two results share an index iff their
/// serialised terms are byte-identical: a lossless compression, not a comparison of values).
pub struct Terms {
    pub list: Vec<J>,
    keys: Vec<String>,
}
impl Terms {
    pub fn new() -> Self {
        Terms { list: vec![], keys: vec![] }
    }
    /// 1-based index
    pub fn intern(&mut self, t: J) -> usize {
        let k = t.to_string();
        if let Some(i) = self.keys.iter().position(|x| *x == k) {
            return i + 1;
        }
        self.keys.push(k);
        self.list.push(t);
        self.list.len()
    }
}

pub fn outcome(terms: &mut Terms, r: Result<Result<Value, String>, String>) -> (J, Option<Value>) {
    match r {
        Ok(Ok(v)) => {
            let ti = terms.intern(value_to_vterm(&v));
            (json!({"ok":true,"panic":false,"ti":small(ti),"err":""}), Some(v))
        }
        Ok(Err(e)) => (json!({"ok":false,"panic":false,"ti":0,"err":clip(e)}), None),
        Err(p) => (json!({"ok":false,"panic":true,"ti":0,"err":clip(p)}), None),
    }
}

pub fn read_datum(w: &Schema, r: &Schema, wire: &[u8]) -> Result<Result<Value, String>, String> {
    guarded(std::panic::AssertUnwindSafe(|| {
        let rd = GenericDatumReader::builder(w).reader_schema(r).build().map_err(|e| e.to_string())?;
        let mut slice: &[u8] = wire;
        rd.read_value(&mut slice).map_err(|e| e.to_string())
    }))
}

pub fn read_container(w: &Schema, r: &Schema, val: &Value) -> Result<Result<Value, String>, String> {
    guarded(std::panic::AssertUnwindSafe(|| {
        let mut wr = Writer::new(w, Vec::new()).map_err(|e| format!("writer: {e}"))?;
        wr.append_value_ref(val).map_err(|e| format!("append: {e}"))?;
        let file = wr.into_inner().map_err(|e| format!("into_inner: {e}"))?;
        let mut rd = Reader::builder(&file[..]).reader_schema(r).build().map_err(|e| e.to_string())?;
        match rd.next() {
            Some(Ok(v)) => Ok(v),
            Some(Err(e)) => Err(e.to_string()),
            None => Err("no item".to_string()),
        }
    }))
}

pub fn read_value_resolve(w: &Schema, r: &Schema, wire: &[u8]) -> Result<Result<Value, String>, String> {
    guarded(std::panic::AssertUnwindSafe(|| {
        let rd = GenericDatumReader::builder(w).build().map_err(|e| e.to_string())?;
        let mut slice: &[u8] = wire;
        let v = rd.read_value(&mut slice).map_err(|e| format!("decode: {e}"))?;
        v.resolve(r).map_err(|e| e.to_string())
    }))
}

fn follow_up(terms: &mut Terms, r: &Schema, res: &Option<Value>) -> (bool, J) {
    match res {
        None => (false, json!({"ok":false,"panic":false,"ti":0,"err":"no result"})),
        Some(v) => {
            let valid = guarded(std::panic::AssertUnwindSafe(|| v.validate(r))).unwrap_or(false);
            let again = guarded(std::panic::AssertUnwindSafe(|| v.clone().resolve(r).map_err(|e| e.to_string())));
            (valid, outcome(terms, again).0)
        }
    }
}

/// one (W, R, v): encode with W, read through the three entry points, validate, resolve again
pub fn exec_case(w: &Schema, r: &Schema, v: &J) -> J {
    let val = vterm_to_value(v);
    let enc = encode_with(w, &val, true);
    let wire = j_bytes(&enc["wire"]);
    let enc_ok = enc["ok"].as_bool() == Some(true);
    let mut c = json!({"v": v, "enc_ok": enc_ok});
    let mut terms = Terms::new();
    // VERIF_TRACE=1 prints the entry point about to run (a stack overflow in the crate aborts the process)
    let tr = std::env::var("VERIF_TRACE").is_ok();
    let runs: [(&str, Result<Result<Value, String>, String>); 3] = if enc_ok {
        [
            ("dr", { if tr { eprintln!("dr"); } read_datum(w, r, &wire) }),
            ("cr", { if tr { eprintln!("cr"); } read_container(w, r, &val) }),
            ("vr", { if tr { eprintln!("vr"); } read_value_resolve(w, r, &wire) }),
        ]
    } else {
        [("dr", Ok(Err("not encoded".into()))), ("cr", Ok(Err("not encoded".into()))), ("vr", Ok(Err("not encoded".into())))]
    };
    for (name, res) in runs {
        let (o, val) = outcome(&mut terms, res);
        let (valid, again) = follow_up(&mut terms, r, &val);
        c[name] = o;
        c[format!("{name}_valid")] = J::Bool(valid);
        c[format!("{name}_again")] = again;
    }
    c["terms"] = J::Array(terms.list);
    c
}

/// only success/failure of the datum read (C09)
pub fn read_ok(w: &Schema, r: &Schema, v: &J) -> J {
    let val = vterm_to_value(v);
    let enc = encode_with(w, &val, true);
    if enc["ok"].as_bool() != Some(true) {
        return json!({"v": v, "enc_ok": false, "ok": false, "panic": false, "err": "not encoded"});
    }
    let wire = j_bytes(&enc["wire"]);
    match read_datum(w, r, &wire) {
        Ok(Ok(_)) => json!({"v": v, "enc_ok": true, "ok": true, "panic": false, "err": ""}),
        Ok(Err(e)) => json!({"v": v, "enc_ok": true, "ok": false, "panic": false, "err": clip(e)}),
        Err(p) => json!({"v": v, "enc_ok": true, "ok": false, "panic": true, "err": clip(p)}),
    }
}

// ---------------------------------------------------------------------------------------------
// evolution steps in Rust (mirror of spec/Resolve.tla's step operators; used only to GENERATE
// (W, R, hist) pairs beyond the TLC bound -- the expected results always come from TLA+)
// ---------------------------------------------------------------------------------------------
pub fn prim(k: &str) -> J {
    json!({"k": k})
}
pub fn jnull() -> J {
    json!({"j":"null"})
}
pub fn jint(n: i64) -> J {
    json!({"j":"int","n":n})
}
pub fn jstr_ascii(s: &str) -> J {
    json!({"j":"str","s":s,"u":bytes_j(s.as_bytes())})
}
pub fn fld(name: &str, ty: J, aliases: Vec<String>, hasdef: bool, dj: J) -> J {
    json!({"name":name,"type":ty,"aliases":aliases,"hasdef":hasdef,"defjson":dj})
}
fn field_full(f: &J) -> J {
    let hd = f.get("hasdef").and_then(|x| x.as_bool()).unwrap_or(false);
    let al: Vec<String> = f.get("aliases").and_then(|x| x.as_array()).map(|a| a.iter().map(|x| x.as_str().unwrap().to_string()).collect()).unwrap_or_default();
    fld(f["name"].as_str().unwrap(), f["type"].clone(), al, hd, if hd { f["defjson"].clone() } else { jnull() })
}
pub fn enum_s(name: &str, syms: &[&str], def: Option<&str>) -> J {
    json!({"k":"enum","name":name,"symbols":syms,"hasdef":def.is_some(),"def":def.unwrap_or("")})
}
pub fn uclass(s: &J) -> String {
    let k = sk(s);
    if INT_KINDS.contains(&k) {
        "int".into()
    } else if LONG_KINDS.contains(&k) {
        "long".into()
    } else if matches!(k, "record" | "enum" | "fixed" | "ref") {
        s["name"].as_str().unwrap().to_string()
    } else {
        k.to_string()
    }
}

pub struct Step {
    pub kind: String,
    pub safe: bool,
    pub s: J,
}
fn st(kind: &str, safe: bool, s: J) -> Step {
    Step { kind: kind.to_string(), safe, s }
}

fn default_pool() -> Vec<(&'static str, J, J, bool)> {
    let pf = json!({"k":"fixed","name":"ns.FD","size":2});
    let pe = enum_s("ns.ED", &["A", "B", "C"], None);
    let pr = json!({"k":"record","name":"ns.RD","fields":[
        fld("p", prim("int"), vec![], false, jnull()),
        fld("q", prim("string"), vec![], true, jstr_ascii("dq"))]});
    let hi = |b: &[u8]| json!({"j":"str","s":"~","u":bytes_j(b)});
    vec![
        ("null", prim("null"), jnull(), true),
        ("boolean", prim("boolean"), json!({"j":"bool","bv":true}), true),
        ("int", prim("int"), jint(-7), true),
        ("long", prim("long"), jint(1234567), true),
        ("float", prim("float"), jint(16777217), true),
        ("double", prim("double"), jint(-2), true),
        ("bytes", prim("bytes"), jstr_ascii("AB"), true),
        ("byteshi", prim("bytes"), hi(&[195, 191, 1]), true),
        ("string", prim("string"), hi(&[120, 226, 130, 172]), true),
        ("date", prim("date"), jint(19000), true),
        ("fixed", pf.clone(), jstr_ascii("AB"), true),
        ("fixedhi", pf, hi(&[195, 191, 65]), true),
        ("enum", pe, jstr_ascii("B"), true),
        ("array", json!({"k":"array","items":prim("int")}), json!({"j":"arr","items":[jint(1), jint(2)]}), true),
        ("map", json!({"k":"map","values":prim("long")}), json!({"j":"obj","kv":[["k", jint(5)]]}), true),
        ("record", pr, json!({"j":"obj","kv":[["p", jint(1)]]}), true),
        ("unull", json!({"k":"union","branches":[prim("null"), prim("int")]}), jnull(), true),
        ("uint", json!({"k":"union","branches":[prim("int"), prim("null")]}), jint(5), true),
        ("usecond", json!({"k":"union","branches":[prim("null"), prim("int")]}), jint(5), false),
        ("usecond2", json!({"k":"union","branches":[prim("string"), prim("int")]}), jint(5), false),
    ]
}

fn branch_pool() -> Vec<J> {
    vec![
        prim("null"),
        prim("long"),
        prim("string"),
        enum_s("ns.ED", &["A", "B", "C"], None),
        json!({"k":"record","name":"ns.Z","fields":[fld("z", prim("int"), vec![], true, jint(0))]}),
    ]
}

fn union_of(bs: Vec<J>) -> J {
    json!({"k":"union","branches":bs})
}

fn at_node(s: &J, in_union: bool, out: &mut Vec<Step>) {
    let k = sk(s);
    // leaves
    let targets: &[&str] = if INT_KINDS.contains(&k) {
        &["long", "float", "double"]
    } else if LONG_KINDS.contains(&k) {
        &["float", "double"]
    } else if k == "float" {
        &["double"]
    } else {
        &[]
    };
    for t in targets {
        out.push(st("Promote", true, prim(t)));
    }
    match k {
        "string" => {
            out.push(st("PromoteStrBytes", false, prim("bytes")));
            out.push(st("ChangeType", false, json!({"k":"fixed","name":"ns.FX","size":3})));
            out.push(st("ChangeType", false, prim("int")));
        }
        "bytes" => {
            out.push(st("PromoteStrBytes", false, prim("string")));
            out.push(st("ChangeType", false, json!({"k":"fixed","name":"ns.FX","size":4})));
        }
        "int" => {
            out.push(st("AnnotateLogical", false, prim("date")));
            out.push(st("ChangeType", false, prim("string")));
        }
        "long" => {
            out.push(st("AnnotateLogical", false, prim("timestamp-millis")));
            out.push(st("Demote", false, prim("int")));
        }
        "timestamp-millis" => out.push(st("AnnotateLogical", false, prim("timestamp-micros"))),
        "double" => {
            out.push(st("Demote", false, prim("float")));
            out.push(st("Demote", false, prim("long")));
        }
        "float" => out.push(st("Demote", false, prim("int"))),
        "fixed" => {
            out.push(st("ChangeType", false, prim("string")));
            out.push(st("ChangeType", false, prim("bytes")));
            let mut z = s.clone();
            z["size"] = J::from(s["size"].as_u64().unwrap() + 1);
            out.push(st("ChangeFixedSize", false, z));
        }
        "enum" => {
            let syms: Vec<String> = s["symbols"].as_array().unwrap().iter().map(|x| x.as_str().unwrap().to_string()).collect();
            let hd = s.get("hasdef").and_then(|x| x.as_bool()).unwrap_or(false);
            let def = if hd { s["def"].as_str().unwrap().to_string() } else { String::new() };
            let mk = |q: Vec<String>, hd: bool, d: &str| json!({"k":"enum","name":s["name"],"symbols":q,"hasdef":hd,"def":d});
            if !syms.iter().any(|x| x == "Z") {
                let mut a = syms.clone();
                a.push("Z".into());
                out.push(st("AddSymbol", true, mk(a, hd, &def)));
                let mut b = vec!["Z".to_string()];
                b.extend(syms.clone());
                out.push(st("AddSymbol", true, mk(b, hd, &def)));
            }
            if syms.len() >= 2 {
                for i in [0, syms.len() - 1] {
                    if !(hd && def == syms[i]) {
                        let mut q = syms.clone();
                        q.remove(i);
                        out.push(st("RemoveSymbol", false, mk(q, hd, &def)));
                    }
                }
                let mut q = syms.clone();
                q.remove(0);
                let d = q[q.len() - 1].clone();
                out.push(st("RemoveSymbolWithDefault", false, mk(q, true, &d)));
                let mut r = syms.clone();
                r.reverse();
                out.push(st("ReorderSymbols", false, mk(r, hd, &def)));
            }
            if !hd {
                out.push(st("SetEnumDefault", false, mk(syms.clone(), true, &syms[0])));
            }
        }
        "union" => {
            let bs: Vec<J> = s["branches"].as_array().unwrap().clone();
            let used: Vec<String> = bs.iter().map(uclass).collect();
            for b in branch_pool() {
                if !used.contains(&uclass(&b)) {
                    let mut a = bs.clone();
                    a.push(b.clone());
                    out.push(st("AddBranch", true, union_of(a)));
                    let mut f = vec![b];
                    f.extend(bs.clone());
                    out.push(st("AddBranch", false, union_of(f)));
                }
            }
            if bs.len() >= 2 {
                for i in 0..bs.len() {
                    let mut q = bs.clone();
                    q.remove(i);
                    out.push(st("RemoveBranch", false, union_of(q)));
                }
                let mut r = bs.clone();
                r.reverse();
                out.push(st("ReorderBranches", false, union_of(r)));
            }
            for b in &bs {
                out.push(st("UnwrapFromUnion", false, b.clone()));
            }
        }
        "array" => {
            let other = if sk(&s["items"]) == "string" { prim("long") } else { prim("string") };
            out.push(st("ChangeItems", false, json!({"k":"array","items":other})));
        }
        "map" => {
            let other = if sk(&s["values"]) == "string" { prim("long") } else { prim("string") };
            out.push(st("ChangeValues", false, json!({"k":"map","values":other})));
        }
        "record" => {
            let fs: Vec<J> = s["fields"].as_array().unwrap().clone();
            let names: Vec<String> = fs.iter().map(|f| f["name"].as_str().unwrap().to_string()).collect();
            let with = |q: Vec<J>| json!({"k":"record","name":s["name"],"fields":q});
            if !names.iter().any(|n| n == "n3") {
                let fresh = if !names.contains(&"n1".to_string()) { "n1" } else if !names.contains(&"n2".to_string()) { "n2" } else { "n3" };
                for (tag, ty, dj, safe) in default_pool() {
                    let mut q = fs.clone();
                    q.push(fld(fresh, ty, vec![], true, dj));
                    out.push(st(&format!("AddFieldWithDefault:{tag}"), safe, with(q)));
                }
                let mut q = vec![fld(fresh, prim("long"), vec![], true, jint(1234567))];
                q.extend(fs.clone());
                out.push(st("AddFieldWithDefault:front", true, with(q)));
                let mut q = fs.clone();
                q.push(fld(fresh, prim("int"), vec![], false, jnull()));
                out.push(st("AddFieldNoDefault", false, with(q)));
            }
            for i in 0..fs.len() {
                let mut q = fs.clone();
                q.remove(i);
                out.push(st("RemoveField", true, with(q)));
            }
            if fs.len() >= 2 {
                let mut q = fs.clone();
                q.reverse();
                out.push(st("Reorder", true, with(q)));
            }
            if fs.len() >= 3 {
                let mut q = fs.clone();
                q.rotate_left(1);
                out.push(st("Reorder", true, with(q)));
            }
            for i in 0..fs.len() {
                let f = field_full(&fs[i]);
                let old = names[i].clone();
                let new = format!("r_{old}");
                let hd = f["hasdef"].as_bool().unwrap();
                if !names.contains(&new) && f["aliases"].as_array().unwrap().is_empty() {
                    for al in [vec![old.clone()], vec!["zz".to_string(), old.clone()]] {
                        let mut q = fs.clone();
                        q[i] = fld(&new, f["type"].clone(), al, hd, f["defjson"].clone());
                        out.push(st("RenameWithAlias", false, with(q)));
                    }
                    let mut q = fs.clone();
                    q[i] = fld(&new, f["type"].clone(), vec![], hd, f["defjson"].clone());
                    out.push(st("RenameWithoutAlias", false, with(q)));
                }
                if hd {
                    let mut q = fs.clone();
                    let al: Vec<String> = f["aliases"].as_array().unwrap().iter().map(|x| x.as_str().unwrap().to_string()).collect();
                    q[i] = fld(&old, f["type"].clone(), al, false, jnull());
                    out.push(st("RemoveDefault", false, with(q)));
                }
            }
        }
        _ => {}
    }
    if k != "union" && !in_union {
        if k != "null" {
            out.push(st("WrapInUnion", false, union_of(vec![s.clone(), prim("null")])));
            out.push(st("WrapInUnion", false, union_of(vec![prim("null"), s.clone()])));
        }
        out.push(st("WrapInUnion", false, union_of(vec![s.clone()])));
    }
}

/// every schema obtainable from `s` by one step at one position
pub fn rewrites(s: &J, in_union: bool, out: &mut Vec<Step>) {
    at_node(s, in_union, out);
    match sk(s) {
        "array" => {
            let mut sub = vec![];
            rewrites(&s["items"], false, &mut sub);
            for x in sub {
                out.push(Step { kind: x.kind, safe: x.safe, s: json!({"k":"array","items":x.s}) });
            }
        }
        "map" => {
            let mut sub = vec![];
            rewrites(&s["values"], false, &mut sub);
            for x in sub {
                out.push(Step { kind: x.kind, safe: x.safe, s: json!({"k":"map","values":x.s}) });
            }
        }
        "union" => {
            let bs = s["branches"].as_array().unwrap();
            for i in 0..bs.len() {
                let mut sub = vec![];
                rewrites(&bs[i], true, &mut sub);
                for x in sub {
                    if sk(&x.s) == "union" {
                        continue;
                    }
                    let mut q = bs.clone();
                    q[i] = x.s;
                    out.push(Step { kind: x.kind, safe: x.safe, s: union_of(q) });
                }
            }
        }
        "record" => {
            let fs = s["fields"].as_array().unwrap();
            for i in 0..fs.len() {
                let mut sub = vec![];
                rewrites(&fs[i]["type"], false, &mut sub);
                for x in sub {
                    let mut q = fs.clone();
                    let mut f = q[i].clone();
                    f["type"] = x.s;
                    q[i] = f;
                    out.push(Step { kind: x.kind, safe: x.safe, s: json!({"k":"record","name":s["name"],"fields":q}) });
                }
            }
        }
        _ => {}
    }
}

fn refs_of(s: &J, out: &mut HashSet<String>) {
    match sk(s) {
        "ref" => {
            out.insert(s["name"].as_str().unwrap().to_string());
        }
        "array" => refs_of(&s["items"], out),
        "map" => refs_of(&s["values"], out),
        "union" => s["branches"].as_array().unwrap().iter().for_each(|b| refs_of(b, out)),
        "record" => s["fields"].as_array().unwrap().iter().for_each(|f| refs_of(&f["type"], out)),
        _ => {}
    }
}
fn def_occs(s: &J, out: &mut Vec<J>) {
    match sk(s) {
        "array" => def_occs(&s["items"], out),
        "map" => def_occs(&s["values"], out),
        "union" => s["branches"].as_array().unwrap().iter().for_each(|b| def_occs(b, out)),
        "record" => {
            out.push(s.clone());
            s["fields"].as_array().unwrap().iter().for_each(|f| def_occs(&f["type"], out));
        }
        "enum" | "fixed" => out.push(s.clone()),
        _ => {}
    }
}
fn unions_ok(s: &J) -> bool {
    match sk(s) {
        "array" => unions_ok(&s["items"]),
        "map" => unions_ok(&s["values"]),
        "union" => {
            let bs = s["branches"].as_array().unwrap();
            let cl: Vec<String> = bs.iter().map(uclass).collect();
            let uniq: HashSet<&String> = cl.iter().collect();
            uniq.len() == cl.len() && bs.iter().all(|b| sk(b) != "union" && unions_ok(b))
        }
        "record" => s["fields"].as_array().unwrap().iter().all(|f| unions_ok(&f["type"])),
        _ => true,
    }
}
/// the schema has a finite value (no record contains itself unconditionally)
fn productive(s: &J, env: &HashMap<String, J>, seen: &mut Vec<String>) -> bool {
    match sk(s) {
        "ref" => {
            let n = s["name"].as_str().unwrap().to_string();
            !seen.contains(&n) && env.get(&n).map(|d| productive(d, env, seen)).unwrap_or(false)
        }
        "record" => {
            seen.push(s["name"].as_str().unwrap().to_string());
            let ok = s["fields"].as_array().unwrap().iter().all(|f| productive(&f["type"], env, seen));
            seen.pop();
            ok
        }
        "union" => s["branches"].as_array().unwrap().iter().any(|b| productive(b, env, seen)),
        _ => true,
    }
}

pub fn well_formed_r(s: &J) -> bool {
    let mut env = HashMap::new();
    defs_of(s, &mut env);
    if !productive(s, &env, &mut vec![]) || !env.values().all(|d| productive(d, &env, &mut vec![])) {
        return false;
    }
    let mut refs = HashSet::new();
    refs_of(s, &mut refs);
    let mut occ = vec![];
    def_occs(s, &mut occ);
    let names: HashSet<String> = occ.iter().map(|d| d["name"].as_str().unwrap().to_string()).collect();
    if !refs.is_subset(&names) {
        return false;
    }
    for a in &occ {
        for b in &occ {
            if a["name"] == b["name"] && a != b {
                return false;
            }
        }
    }
    unions_ok(s)
}

// ---- random seed schemas (wider than the TLC seeds) ----
fn f0(name: &str, ty: J) -> J {
    fld(name, ty, vec![], false, jnull())
}
pub fn random_seed(rng: &mut Rng, depth: usize, ctr: &mut usize) -> J {
    let leaves = ["int", "long", "float", "double", "string", "bytes", "boolean", "null", "date", "time-millis", "timestamp-millis", "timestamp-micros", "time-micros"];
    let c = if depth == 0 { rng.below(4) } else { rng.below(12) };
    match c {
        0..=2 => prim(leaves[rng.below(leaves.len())]),
        3 => {
            *ctr += 1;
            if rng.chance(1, 2) {
                let n = 1 + rng.below(4);
                let syms: Vec<String> = (0..n).map(|i| ["A", "B", "C", "D"][i].to_string()).collect();
                json!({"k":"enum","name":format!("ns.E{ctr}"),"symbols":syms,"hasdef":false,"def":""})
            } else {
                json!({"k":"fixed","name":format!("ns.F{ctr}"),"size":1 + rng.below(4)})
            }
        }
        4 => json!({"k":"array","items":random_seed(rng, depth - 1, ctr)}),
        5 => json!({"k":"map","values":random_seed(rng, depth - 1, ctr)}),
        6 | 7 => {
            let n = 1 + rng.below(3);
            let mut bs: Vec<J> = vec![];
            let mut tries = 0;
            while bs.len() < n && tries < 12 {
                tries += 1;
                let b = random_seed(rng, depth - 1, ctr);
                if sk(&b) == "union" || bs.iter().any(|x| uclass(x) == uclass(&b)) {
                    continue;
                }
                bs.push(b);
            }
            if bs.is_empty() {
                bs.push(prim("null"));
            }
            union_of(bs)
        }
        _ => {
            *ctr += 1;
            let name = format!("ns.R{ctr}");
            let nf = rng.below(4);
            let fnames = ["a", "b", "c", "d"];
            let mut fs = vec![];
            for i in 0..nf {
                let ty = if rng.chance(1, 8) {
                    // recursive reference through a nullable union or an array
                    let r = json!({"k":"ref","name":name});
                    if rng.chance(1, 2) { union_of(vec![prim("null"), r]) } else { json!({"k":"array","items":r}) }
                } else {
                    random_seed(rng, depth - 1, ctr)
                };
                fs.push(f0(fnames[i], ty));
            }
            json!({"k":"record","name":name,"fields":fs})
        }
    }
}

/// a random step sequence of length `len` from seed schema `w`: (R, hist)
pub fn random_evolution(rng: &mut Rng, w: &J, len: usize) -> (J, Vec<J>) {
    let mut r = w.clone();
    let mut hist = vec![];
    for _ in 0..len {
        let mut all = vec![];
        rewrites(&r, false, &mut all);
        let cands: Vec<Step> = all.into_iter().filter(|x| well_formed_r(&x.s)).collect();
        if cands.is_empty() {
            break;
        }
        // favour the rarer step kinds: pick a kind first, then a step of that kind
        let mut kinds: Vec<String> = cands.iter().map(|c| c.kind.split(':').next().unwrap().to_string()).collect();
        kinds.sort();
        kinds.dedup();
        let kind = kinds[rng.below(kinds.len())].clone();
        let of_kind: Vec<&Step> = cands.iter().filter(|c| c.kind.split(':').next().unwrap() == kind).collect();
        let pick = of_kind[rng.below(of_kind.len())];
        hist.push(json!({"kind": pick.kind, "safe": pick.safe}));
        r = pick.s.clone();
    }
    (r, hist)
}

// ---------------------------------------------------------------------------------------------
// C09: parsed Schema -> term in document-order normal form (what the checker really walks:
// first occurrence of a named type = definition, later ones = Schema::Ref), verdicts
// ---------------------------------------------------------------------------------------------
pub fn schema_to_term(s: &Schema) -> J {
    use apache_avro::schema::*;
    match s {
        Schema::Null => prim("null"),
        Schema::Boolean => prim("boolean"),
        Schema::Int => prim("int"),
        Schema::Long => prim("long"),
        Schema::Float => prim("float"),
        Schema::Double => prim("double"),
        Schema::Bytes => prim("bytes"),
        Schema::String => prim("string"),
        Schema::Date => prim("date"),
        Schema::TimeMillis => prim("time-millis"),
        Schema::TimeMicros => prim("time-micros"),
        Schema::TimestampMillis => prim("timestamp-millis"),
        Schema::TimestampMicros => prim("timestamp-micros"),
        Schema::TimestampNanos => prim("timestamp-nanos"),
        Schema::LocalTimestampMillis => prim("local-timestamp-millis"),
        Schema::LocalTimestampMicros => prim("local-timestamp-micros"),
        Schema::LocalTimestampNanos => prim("local-timestamp-nanos"),
        Schema::Array(a) => json!({"k":"array","items":schema_to_term(&a.items)}),
        Schema::Map(m) => json!({"k":"map","values":schema_to_term(&m.types)}),
        Schema::Union(u) => json!({"k":"union","branches":u.variants().iter().map(schema_to_term).collect::<Vec<_>>()}),
        Schema::Record(r) => json!({"k":"record","name":r.name.fullname(None),"fields":r.fields.iter().map(|f|
            json!({"name":f.name,"type":schema_to_term(&f.schema),"aliases":f.aliases,"hasdef":f.default.is_some(),"defjson":{"j":"null"}})
        ).collect::<Vec<_>>()}),
        Schema::Enum(e) => json!({"k":"enum","name":e.name.fullname(None),"symbols":e.symbols,"hasdef":e.default.is_some(),"def":e.default.clone().unwrap_or_default()}),
        Schema::Fixed(f) => json!({"k":"fixed","name":f.name.fullname(None),"size":f.size}),
        Schema::Ref { name } => json!({"k":"ref","name":name.fullname(None)}),
        _ => json!({"k":"other"}),
    }
}

pub fn verdict(w: &Schema, r: &Schema, mutual: bool) -> J {
    use apache_avro::schema_compatibility::{Compatibility, SchemaCompatibility};
    let res = guarded(std::panic::AssertUnwindSafe(|| {
        if mutual { SchemaCompatibility::mutual_read(w, r) } else { SchemaCompatibility::can_read(w, r) }
    }));
    match res {
        Ok(Ok(Compatibility::Full)) => json!({"vd":"Full","panic":false,"why":""}),
        Ok(Ok(Compatibility::Partial)) => json!({"vd":"Partial","panic":false,"why":""}),
        Ok(Err(e)) => json!({"vd":"Err","panic":false,"why":clip(e.to_string().split_whitespace().collect::<Vec<_>>().join(" "))}),
        Err(p) => json!({"vd":"Err","panic":true,"why":clip(p)}),
    }
}

/// nesting depth of a JSON document (serde_json refuses to parse beyond 128 levels)
pub fn json_depth(j: &J) -> usize {
    match j {
        J::Array(a) => 1 + a.iter().map(json_depth).max().unwrap_or(0),
        J::Object(o) => 1 + o.values().map(json_depth).max().unwrap_or(0),
        _ => 0,
    }
}
