#!/bin/bash
# try-seeded.sh <patch.diff> <ID> [<ID>...]
# Runs checks against a scratch copy of /repo with a seeded change applied, WITHOUT touching /repo:
# a scratch clone of /verif (/tmp/vlead) whose harness points at /tmp/vlead-repo.
set -e
patch=$(realpath "$1"); shift
mkdir -p /tmp/vlead-repo
rsync -a --delete --exclude target --exclude .git /repo/ /tmp/vlead-repo/
(cd /tmp/vlead-repo && patch -p1 -s < "$patch")
rsync -a --delete --exclude work --exclude replays --exclude 'harness/target' --exclude 'harness/corpus_c17/target' --exclude .git /verif/ /tmp/vlead/
sed -i 's#path = "/repo/avro"#path = "/tmp/vlead-repo/avro"#' /tmp/vlead/harness/Cargo.toml
[ -f /tmp/vlead/harness/corpus_c17/Cargo.toml ] && sed -i 's#/repo/avro#/tmp/vlead-repo/avro#g' /tmp/vlead/harness/corpus_c17/Cargo.toml
cd /tmp/vlead
for id in "$@"; do
  echo "=== $id against $patch"
  bin/check $id --tier ${TIER:-quick} 2>&1 | grep -v "^\[check\]" | cut -c1-260 | grep "VIOLATION\|^OK\|TOOL-ERROR\|KNOWN" | head -${LINES_SHOWN:-4}
done
