#!/bin/bash
# try-seeded.sh <patch.diff> <ID> [<ID>...]
# Runs checks against a scratch copy of /repo with a seeded change applied, WITHOUT touching /repo:
# a scratch clone of /verif ($V) whose harness points at $R.
set -e
patch=$(realpath "$1"); shift
V=/tmp/vlead${SLOT:-}; R=/tmp/vlead${SLOT:-}-repo   # SLOT=<n> gives independent scratch copies for parallel runs
mkdir -p $R
rsync -a --delete --exclude target --exclude .git /repo/ $R/
(cd $R && patch -p1 -s < "$patch")
rsync -a --delete --exclude work --exclude replays --exclude 'harness/target' --exclude 'harness/corpus_c17/target' --exclude .git /verif/ $V/
sed -i "s#path = \"/repo/avro\"#path = \"$R/avro\"#" $V/harness/Cargo.toml
find $V/harness/corpus_c17 -name Cargo.toml -not -path '*/target/*' -exec sed -i "s#\"/repo/avro#\"$R/avro#g" {} +
cd $V
for id in "$@"; do
  echo "=== $id against $patch"
  bin/check $id --tier ${TIER:-quick} > $V/last-$id.log 2>&1 || true
  grep "^VIOLATION" $V/last-$id.log | cut -c1-260 | head -${LINES_SHOWN:-3}
  echo "  (violations: $(grep -c '^VIOLATION' $V/last-$id.log), known-finding lines: $(grep -c '^KNOWN' $V/last-$id.log))"
  grep "^OK\|TOOL-ERROR" $V/last-$id.log | cut -c1-260 | head -3
done
