#!/bin/bash
# confirm-seeded.sh <worktree> <dir with patch.diff demo.rs notes.txt> <ID>
# Confirms a seeded change in a scratch worktree: compiles, passes the existing suite, demo fails with / passes without.
# Writes /verif/seeded/<name>/ (patch.diff, demo.rs, notes.txt, meta.json).  name = <ID>-<tag of the source dir>
# optional: 4th arg = name under seeded/ (default <ID>-<tag>), env DEMO_FEATURES="--features derive" for the demo runs
wt="$1"; src="$2"; id="$3"; tag=$(basename $(dirname "$src"))
name="${4:-$id-$tag}"; out=/verif/seeded/$name; mkdir -p "$out"
cd "$wt" || exit 2
git checkout -q -- . ; rm -f avro/tests/verif_demo_*.rs
cp "$src/demo.rs" avro/tests/verif_demo_$id.rs
# demo without the change
d0=$(cargo test -p apache-avro $DEMO_FEATURES --test verif_demo_$id --offline 2>&1 | grep "^test result" | tail -1)
git apply "$src/patch.diff" || { echo "patch does not apply"; exit 2; }
d1=$(cargo test -p apache-avro $DEMO_FEATURES --test verif_demo_$id --offline 2>&1 | grep "^test result\|error\[" | tail -1)
rm -f avro/tests/verif_demo_$id.rs
suite=$(cargo test --workspace --no-fail-fast --offline 2>&1 | grep "^test result" | awk '{p+=$4; f+=$6} END {print p" passed, "f" failed"}')
git checkout -q -- . 
cp "$src/patch.diff" "$src/demo.rs" "$out/"; cp "$src/notes.txt" "$out/notes.txt" 2>/dev/null
python3 - "$out" "$id" "$d0" "$d1" "$suite" <<'PY'
import json,sys
out,pid,d0,d1,suite=sys.argv[1:6]
notes=open(out+'/notes.txt').read() if __import__('os').path.exists(out+'/notes.txt') else ''
meta={"property":pid,"source":"independent sub-agent given only the property text and a scratch worktree",
      "confirmed_by_lead":{"demo_without_change":d0,"demo_with_change":d1,"existing_suite_with_change":suite,
                           "commands":["cargo test -p apache-avro --test verif_demo_%s --offline"%pid,"cargo test --workspace --no-fail-fast --offline"]},
      "needs_to_manifest":notes[:1500],"checks_run":{}}
json.dump(meta,open(out+'/meta.json','w'),indent=1)
print(pid, '| without:',d0,'| with:',d1,'| suite:',suite)
PY
