#!/usr/bin/env python3
"""Collects the outcome of running checks against seeded changes (work/seedlog/*.log written by bin/try-seeded.sh)
into seeded/<name>/meta.json (checks_run) and prints the markdown table for DESIGN.md 8.6."""
import json, re, sys
from pathlib import Path
ROOT = Path(__file__).resolve().parents[1]
# round-1 logs printed only "<ID>/patch.diff"; map them to the source tag by batch
ROUND1 = {"batch1.log": {"C04": "b", "C01": "a", "C02": "a"}, "batch2.log": {"C05": "c", "C06": "c", "C12": "f", "C11": "f", "C10": "f", "C15": "f"},
          "batch3.log": {"C07": "d", "C13": "d", "C14": "e", "C18": "e"}}
results = {}   # seeded name -> {check id: [outcomes in time order]}
def add(name, chk, line, when):
    results.setdefault(name, {}).setdefault(chk, []).append((when, line))
for log in sorted((ROOT / "work" / "seedlog").glob("*.log")):
    cur = None
    for line in log.read_text().splitlines():
        m = re.match(r"=== (C\d\d) against (.*)", line)
        if m:
            chk, path = m.group(1), m.group(2)
            if path.startswith("/"):
                parts = Path(path).parts
                if "seeded" in parts:
                    name = parts[parts.index("seeded") + 1]
                else:
                    name = f"{parts[-2]}-{parts[-3]}"
            else:
                pid = path.split("/")[0]
                tag = ROUND1.get(log.name, {}).get(pid) or {"batch4.log": {"C07": "d", "C12": "f", "C11": "f"}}.get(log.name, {}).get(pid, "?")
                name = f"{pid}-{tag}" if not pid.startswith("C20-") else pid
            cur = (name, chk)
            continue
        if cur and re.match(r"(VIOLATION|OK |TOOL-ERROR)", line):
            add(cur[0], cur[1], line[:200], log.name)
            cur = None
# the very first manual run (C03 against b/C03) was done interactively
results.setdefault("C03-b", {}).setdefault("C03", []).insert(0, ("interactive", "VIOLATION property=C03 clauses=C03:user-metadata-differs"))
rows = []
for name in sorted(results):
    d = ROOT / "seeded" / name
    meta_p = d / "meta.json"
    meta = json.loads(meta_p.read_text()) if meta_p.exists() else {"property": name.split("-")[0]}
    meta["checks_run"] = {chk: [{"run": w, "outcome": l} for w, l in outs] for chk, outs in results[name].items()}
    if d.exists():
        meta_p.write_text(json.dumps(meta, indent=1))
    for chk, outs in results[name].items():
        first, last = outs[0][1], outs[-1][1]
        verdict = lambda l: "caught" if l.startswith("VIOLATION") else ("missed" if l.startswith("OK") else "tool-error")
        clauses = re.search(r"clauses=(\S+)", last)
        rows.append((name, chk, verdict(first), verdict(last), clauses.group(1) if clauses else ""))
print("| seeded change | check | first run | after strengthening | clauses reported |")
print("|---|---|---|---|---|")
for r in rows:
    print("| %s | %s | %s | %s | %s |" % (r[0], r[1], r[2], r[3] if len(results[r[0]][r[1]]) > 1 else "-", r[4][:120]))
