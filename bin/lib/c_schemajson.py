"""C12 (canonical form + fingerprints) and C10 (schema -> JSON -> schema).  Glue only: runs TLC on
MC_SchemaJson, the harness binaries avh_c12 / avh_c10 on the real crate, adds the reference digests
(Python hashlib, an instrument) to the recorded events, and lets Trace_Canon.tla /
Trace_SchemaRoundTrip.tla judge."""
import hashlib
import json
import subprocess
import time
from pathlib import Path

import vf

EDIT_KINDS = ["ReorderKeys", "AddDoc", "AddAliases", "AddAliasOfOtherType", "AddDefault", "AddAttribute", "AddForeignKeyAttribute", "AddOrder", "AddLogical",
              "WrapPrimitive", "RespellNamespace", "RespellReference"]


def run_bin(name, args, timeout=1800):
    exe = vf.HARNESS / "target" / "release" / name
    p = subprocess.run([str(exe)] + [str(a) for a in args], stdout=subprocess.PIPE, stderr=subprocess.PIPE, text=True, timeout=timeout)
    if p.returncode != 0:
        raise vf.ToolError(f"harness {name} {args[0]} exited {p.returncode}: {p.stderr[-2000:]}")
    return p


def _interleave(events, ncanon):
    """alternate canonical-form and raw-rabin events so that the self-test finds both kinds early"""
    a, b = events[:ncanon], events[ncanon:]
    out = []
    for i in range(max(len(a), len(b))):
        if i < len(a):
            out.append(a[i])
        if i < len(b):
            out.append(b[i])
    return out


def lines_of(path):
    return [l for l in Path(path).read_text().splitlines() if l.strip()]


def sample_evenly(xs, n):
    if len(xs) <= n:
        return list(xs)
    step = len(xs) / n
    return [xs[int(i * step)] for i in range(n)]


def mc_scenarios(work, rep, cfg, workers=4, timeout=1500):
    t0 = time.time()
    r = vf.tlc_mc(work, "MC_SchemaJson.tla", cfg, workers=workers, timeout=timeout)
    vf.log(f"MC_SchemaJson/{cfg}: {r.distinct} distinct states in {time.time() - t0:.0f}s")
    if not r.ok:
        # the specification contradicts itself (e.g. an edit that is not irrelevant under the spec's own PCF):
        # a tool problem, not a verdict on the code
        raise vf.ToolError(f"MC_SchemaJson/{cfg} invariant violated: {r.violated}")
    rep.add_states(r.distinct, r.generated)
    scns = sorted(set(r.tagged("SCN")))
    if not scns:
        raise vf.ToolError("MC_SchemaJson emitted no scenarios (vacuous run)")
    return scns


def check_edit_coverage(scns):
    seen = set()
    for s in scns:
        for e in json.loads(s).get("edits", []):
            seen.add(e)
    missing = [k for k in EDIT_KINDS if k not in seen]
    if missing:
        raise vf.ToolError(f"edit actions never exercised: {missing}")
    return seen


# ------------------------------------------------------------------------------------------------
# binding self-test: a recorded field is corrupted; the trace specification must reject exactly there
# ------------------------------------------------------------------------------------------------
def _flip(b):
    b = list(b)
    if b:
        b[len(b) // 2] ^= 1
    else:
        b = [1]
    return b


def _swap_first_two_keys(tree):
    """first object node with >= 2 keys (depth first): swap its first two keys"""
    if tree.get("j") == "obj":
        if len(tree["kv"]) >= 2:
            tree["kv"][0], tree["kv"][1] = tree["kv"][1], tree["kv"][0]
            return True
        return any(_swap_first_two_keys(v) for _, v in tree["kv"])
    if tree.get("j") == "arr":
        return any(_swap_first_two_keys(x) for x in tree["items"])
    return False


def selftest(work, rep, module, cfg, events, verdicts, corruptions, want=6):
    """corruptions: list of (name, expected clause, function(event dict) -> bool applied)."""
    dirty = {v["id"] for v in verdicts if v.get("fail") or v.get("known")}
    clean = [json.loads(l) for l in events if json.loads(l)["id"] not in dirty]
    cases, expect = [], []
    for name, clause, fn in corruptions:
        got = 0
        for ev in clean:
            if got >= want:
                break
            e = json.loads(json.dumps(ev))
            if fn(e):
                e["id"] = len(cases)
                cases.append(json.dumps(e))
                expect.append((name, clause))
                got += 1
        if got == 0:
            raise vf.ToolError(f"self-test: corruption {name} applies to no recorded event")
    vs, st, tr = vf.judge_events(work, module, cfg, cases, chunk=len(cases) + 1, jobs=1, timeout=900)
    by_id = {v["id"]: v for v in vs}
    missed = [(i, expect[i]) for i in range(len(cases)) if expect[i][1] not in by_id.get(i, {}).get("fail", [])]
    if missed:
        raise vf.ToolError(f"binding self-test: corrupted events were not rejected: {missed[:4]}")
    rep.cov["selftest"] = {"corrupted_events_rejected": len(cases), "kinds": sorted({n for n, _ in expect})}
    vf.log(f"self-test: {len(cases)} corrupted events rejected")


def _c12_corruptions():
    def rabin(e):
        if e.get("ev") != "canon" or not e["parse_ok"]:
            return False
        e["rabin"] = _flip(e["rabin"]); return True

    def order(e):
        return e.get("ev") == "canon" and e["parse_ok"] and _swap_first_two_keys(e["ctree"])

    def spy(e):
        if e.get("ev") != "canon" or not e["parse_ok"]:
            return False
        e["spy"] = e["spy"][:-1]; return True

    def md5(e):
        if e.get("ev") != "canon" or not e["parse_ok"]:
            return False
        e["md5"] = _flip(e["md5"]); return True

    def p2(e):
        if e.get("ev") != "canon" or not e["parse_ok"]:
            return False
        e["p2"]["sha256"] = _flip(e["p2"]["sha256"]); return True

    def compact(e):
        if e.get("ev") != "canon" or not e["parse_ok"]:
            return False
        e["compact"] = False; return True

    def raw(e):
        if e.get("ev") != "rabin":
            return False
        e["split"] = _flip(e["split"]); return True

    return [("rabin-byte", "C12:rabin", rabin), ("canonical-key-order", "C12:canonical-form", order),
            ("spy-truncated", "C12:digest-input", spy), ("md5-byte", "C12:md5", md5),
            ("second-process", "C12:differs-between-processes", p2), ("compact-flag", "C12:whitespace-or-escapes", compact),
            ("raw-rabin-split", "C12:rabin-split-update", raw)]


def _c10_corruptions():
    def ok(e):
        return e["parse_ok"] and e["parse2_ok"] and e["hdr_ok"]

    def name(e):
        if not ok(e) or "name" not in e["proj2"]:
            return False
        e["proj2"]["name"] = _flip(e["proj2"]["name"]); return True

    def dup(e):
        t = e["tree2"]
        if not ok(e) or t.get("j") != "obj" or not t["kv"]:
            return False
        t["kv"].append(json.loads(json.dumps(t["kv"][0]))); return True

    def text3(e):
        if not ok(e):
            return False
        e["text3_same"] = False; return True

    def hdr(e):
        if not ok(e) or "name" not in e["proj_hdr"]:
            return False
        e["proj_hdr"]["name"] = _flip(e["proj_hdr"]["name"]); return True

    def dropkey(e):
        t = e["tree2"]
        if not ok(e) or t.get("j") != "obj" or len(t["kv"]) < 4:
            return False
        idx = [i for i, (k, _) in enumerate(t["kv"]) if k not in ("type", "name", "namespace", "fields", "symbols", "size", "items", "values")]
        if not idx:
            return False
        del t["kv"][idx[0]]; return True

    return [("reparsed-name", "C10:reparsed-schema-differs", name), ("duplicate-key", "C10:duplicate-keys", dup),
            ("text3", "C10:text-not-stable", text3), ("header-name", "C10:header-schema-differs", hdr),
            ("written-json-lost-key", "C10:json-denotes-other-schema", dropkey)]


# ------------------------------------------------------------------------------------------------
# C12
# ------------------------------------------------------------------------------------------------
RULE12 = ("TLC explores MC_SchemaJson: a bounded grammar of schema JSON trees (primitives, every logical type on its allowed"
          " base, ignored logical types, fixed/enum, arrays/maps/unions, records with 0-5 fields, nested named types in"
          " different namespaces, references by short and full name, recursion) x irrelevant-edit actions (1 step quick, 2"
          " steps thorough) with the invariants PCF(edit(t)) = PCF(t), PCF(PCF(t)) = PCF(t), canonical shape. Every explored"
          " tree [a deterministic sample of the 2-step ones in thorough] plus seeded random deeper trees rendered twice with"
          " different irrelevant choices is parsed by the real crate; canonical_form() / fingerprint::<Rabin|Md5|Sha256|spy>()"
          " are recorded in two processes and judged by Trace_Canon.tla. Rabin additionally on all byte strings of length <= 1"
          " and seeded random strings of length <= 64. Non-trivial = tree is not a bare primitive name; distinct = distinct"
          " (base, t) tree hashes / distinct byte strings.")


def add_reference_digests(event_lines):
    out = []
    for l in event_lines:
        e = json.loads(l)
        b = bytes(e["cbytes"])
        e["ref_md5"] = list(hashlib.md5(b).digest())
        e["ref_sha256"] = list(hashlib.sha256(b).digest())
        out.append(json.dumps(e))
    return out


def run_c12(prop, tier, seed, replay=None):
    rep = vf.Report(prop, tier, seed)
    vf.build_harness()
    work = vf.fresh_workdir(f"{prop}-{tier}")
    scns, hash_args = [], None
    if replay:
        payload = json.loads(Path(replay).read_text())["payload"]
        if payload.get("kind") == "rabin":
            (work / "one.bytes.json").write_text(json.dumps(payload["event"]["bytes"]))
            hash_args = ["hash", "--only", work / "one.bytes.json"]
        else:
            scns = [json.dumps(payload["scenario"])]
    else:
        if tier == "quick":
            one = mc_scenarios(work, rep, "MC_SchemaJson_quick.cfg")
            scns = sample_evenly(one, 420)
            nfam, depth, nhash = 60, 3, 500
        else:
            one = mc_scenarios(work, rep, "MC_SchemaJson_quick.cfg")
            two = mc_scenarios(work, rep, "MC_SchemaJson_thorough.cfg", timeout=2400)
            first = set(one)
            scns = one + sample_evenly([s for s in two if s not in first], 2500)
            nfam, depth, nhash = 900, 5, 8000
        check_edit_coverage(scns)
        rnd = work / "rand.scn.ndjson"
        run_bin("avh_c12", ["gen", "--seed", seed, "--count", nfam, "--depth", depth, "--out", rnd])
        scns += lines_of(rnd)
        hash_args = ["hash", "--seed", seed, "--count", nhash, "--maxlen", 64]
        rep.cov["exhaustive"] = False
    events = []
    if scns:
        scn_file = work / "all.scn.ndjson"
        scn_file.write_text("\n".join(scns) + "\n")
        ev_file = work / "events.ndjson"
        run_bin("avh_c12", ["run", "--scn", scn_file, "--out", ev_file])
        events = add_reference_digests(lines_of(ev_file))
        if len(events) != len(scns):
            raise vf.ToolError(f"harness recorded {len(events)} events for {len(scns)} scenarios")
        accepted = sum(1 for l in events if json.loads(l)["parse_ok"])
        if accepted * 10 < len(events) * 9:
            raise vf.ToolError(f"only {accepted} of {len(events)} generated schemas were accepted by the parser (generator drifted)")
        # the same scenarios with field names / enum symbols respelt outside ASCII, in a process where the permissive
        # symbol / field-name validators (a documented process-wide setting) are installed
        if replay:
            ex = [s for s in scns if json.loads(s).get("exotic")]
        else:
            named = [s for s in scns if '"fields"' in s or '"symbols"' in s]
            ex = [json.dumps(dict(json.loads(s), exotic=True)) for s in sample_evenly(named, 120 if tier == "quick" else 1200)]
        if ex:
            exf, exo = work / "exotic.scn.ndjson", work / "exotic.events.ndjson"
            exf.write_text("\n".join(ex) + "\n")
            run_bin("avh_c12", ["run", "--scn", exf, "--out", exo, "--exotic", 1])
            exev = add_reference_digests(lines_of(exo))
            if len(exev) != len(ex):
                raise vf.ToolError(f"harness recorded {len(exev)} exotic events for {len(ex)} scenarios")
            okx = sum(1 for l in exev if json.loads(l)["parse_ok"])
            if not replay and okx * 10 < len(exev) * 8:
                raise vf.ToolError(f"only {okx} of {len(exev)} exotic schemas were accepted (validators not installed?)")
            rep.cov["exotic_name_scenarios"] = len(ex)
            if replay:
                scns, events = [], []
            base_n = len(scns)
            for l in exev:
                e = json.loads(l)
                e["id"] = base_n + e["id"]
                events.append(json.dumps(e))
            scns = scns + ex
    ncanon = len(events)
    if hash_args:
        hf = work / "hash.ndjson"
        run_bin("avh_c12", hash_args + ["--out", hf])
        for l in lines_of(hf):
            e = json.loads(l)
            e["id"] = ncanon + e["id"]          # one id space for the combined trace
            events.append(json.dumps(e))
    # interleave so that every judging JVM gets the same mix of cheap and expensive events
    njobs = 4
    order = sorted(range(len(events)), key=lambda i: (i % njobs, i))
    t0 = time.time()
    verdicts, st, tr = vf.judge_events(work, "Trace_Canon.tla", "Trace_Canon.cfg", [events[i] for i in order],
                                       chunk=len(events) // njobs + 1, jobs=njobs, timeout=2400)
    vf.log(f"judged {ncanon} canonical-form events and {len(events) - ncanon} rabin events in {time.time() - t0:.0f}s")
    rep.add_states(st, tr)
    parsed = [json.loads(s) for s in scns]

    def replay_of(i):
        ev = json.loads(events[i])
        if i < ncanon:
            return {"kind": "canon", "scenario": parsed[i], "event": {k: ev[k] for k in ev if k not in ("base", "t")}}
        return {"kind": "rabin", "event": ev}

    rep.classify(verdicts, replay_of)
    if not replay:
        selftest(work, rep, "Trace_Canon.tla", "Trace_Canon.cfg", _interleave(events, ncanon), verdicts, _c12_corruptions(), want=2 if tier == "quick" else 6)
    rep.cov["distinct_nontrivial"] = vf.distinct_hashes(
        [{"b": p["base"], "t": p["t"]} for p in parsed if p["t"].get("j") != "str"]) + vf.distinct_hashes(
        [json.loads(l)["bytes"] for l in events[ncanon:] if json.loads(l)["bytes"]])
    for p in parsed[:1] + parsed[len(parsed) // 2: len(parsed) // 2 + 1] + parsed[-1:]:
        rep.sample({"edits": p.get("edits", []), "text": tree_text(p["t"])[:400]})
    rep.cov["traces_validated_against_impl"] = len(events)
    rep.cov["evaluations"] = len(events)
    rep.cov["rule"] = RULE12
    rep.assumptions += [
        "spec/SchemaJson.tla (PCF written from the specification's transformation rules) and spec/Crc64.tla (the specification's fingerprint64 pseudo-code; ASSUMEs: EMPTY64, table entries, \"int\"/\"null\" vectors of the Avro project) are the oracle",
        "MD5 / SHA-256 arithmetic is not transcribed: the spy digest shows which bytes the crate feeds (judged in TLA+), the real digests are compared with Python hashlib over the same bytes (instrument)",
        "harness/src/jsontree.rs scanner/renderer and harness/src/schemajson.rs text rendering are trusted",
        "grey zone, not judged for idempotence: a null-namespace name defined or referenced inside a namespaced definition (the specification's canonical form cannot express it)",
    ]
    return rep.finish()


def tree_text(t):
    j = t.get("j")
    if j == "obj":
        return "{" + ",".join(json.dumps(k) + ":" + tree_text(v) for k, v in t["kv"]) + "}"
    if j == "arr":
        return "[" + ",".join(tree_text(x) for x in t["items"]) + "]"
    if j == "str":
        return json.dumps(bytes(t["u"]).decode("utf-8", "replace"))
    if j == "int":
        return str(t["n"])
    if j == "num":
        return t["text"]
    if j == "bool":
        return "true" if t["bv"] else "false"
    return "null"


# ------------------------------------------------------------------------------------------------
# C10
# ------------------------------------------------------------------------------------------------
RULE10 = ("TLC explores MC_SchemaJson (bounded grammar of schema JSON trees x irrelevant-edit actions: key order, doc, aliases,"
          " defaults, custom attributes, order, logical types, namespace spellings inherited / explicit / dotted / explicitly"
          " empty) and checks that the reference writer and reader of SchemaJson.tla are inverse (Meaning(Render(Meaning(t)))"
          " = Meaning(t), NoDupKeys(Render(..))). Every explored tree [sampled in quick] plus seeded random deeper trees with"
          " docs needing escapes, defaults of every JSON kind, attributes on every node kind and every logical type is run"
          " through parse_str -> to_string -> parse_str -> to_string and through a container header on the real crate and"
          " judged by Trace_SchemaRoundTrip.tla. Non-trivial = tree is not a bare primitive name; distinct = distinct tree hashes.")


def run_c10(prop, tier, seed, replay=None):
    rep = vf.Report(prop, tier, seed)
    vf.build_harness()
    work = vf.fresh_workdir(f"{prop}-{tier}")
    if replay:
        payload = json.loads(Path(replay).read_text())["payload"]
        scns = [json.dumps(payload["scenario"])]
    else:
        one = mc_scenarios(work, rep, "MC_SchemaJson_quick.cfg")
        if tier == "quick":
            scns = sample_evenly(one, 700)
            nfam, depth = 120, 3
        else:
            two = mc_scenarios(work, rep, "MC_SchemaJson_thorough.cfg", timeout=2400)
            first = set(one)
            scns = one + sample_evenly([s for s in two if s not in first], 3000)
            nfam, depth = 1500, 5
        check_edit_coverage(scns)
        # a C10 scenario is a single tree: the edited tree of each explored state
        scns = sorted({json.dumps({"t": json.loads(s)["t"], "edits": json.loads(s)["edits"]}, sort_keys=True) for s in scns})
        rnd = work / "rand.scn.ndjson"
        run_bin("avh_c10", ["gen", "--seed", seed, "--count", nfam, "--depth", depth, "--out", rnd])
        scns += lines_of(rnd)
        rep.cov["exhaustive"] = False
    scn_file = work / "all.scn.ndjson"
    scn_file.write_text("\n".join(scns) + "\n")
    ev_file = work / "events.ndjson"
    run_bin("avh_c10", ["run", "--scn", scn_file, "--out", ev_file])
    events = lines_of(ev_file)
    if len(events) != len(scns):
        raise vf.ToolError(f"harness recorded {len(events)} events for {len(scns)} scenarios")
    accepted = sum(1 for l in events if json.loads(l)["parse_ok"])
    if accepted * 10 < len(events) * 9:
        raise vf.ToolError(f"only {accepted} of {len(events)} generated schemas were accepted by the parser (generator drifted)")
    njobs = 4
    order = sorted(range(len(events)), key=lambda i: (i % njobs, i))
    t0 = time.time()
    verdicts, st, tr = vf.judge_events(work, "Trace_SchemaRoundTrip.tla", "Trace_SchemaRoundTrip.cfg", [events[i] for i in order],
                                       chunk=len(events) // njobs + 1, jobs=njobs, timeout=2400)
    vf.log(f"judged {len(events)} round-trip events in {time.time() - t0:.0f}s")
    rep.add_states(st, tr)
    parsed = [json.loads(s) for s in scns]

    def replay_of(i):
        ev = json.loads(events[i])
        return {"kind": "srt", "scenario": parsed[i], "event": {k: ev[k] for k in ev if k not in ("t",)}}

    rep.classify(verdicts, replay_of)
    if not replay:
        selftest(work, rep, "Trace_SchemaRoundTrip.tla", "Trace_SchemaRoundTrip.cfg", events, verdicts, _c10_corruptions(), want=2 if tier == "quick" else 6)
    rep.cov["distinct_nontrivial"] = vf.distinct_hashes([p["t"] for p in parsed if p["t"].get("j") != "str"])
    for p in parsed[:1] + parsed[len(parsed) // 2: len(parsed) // 2 + 1] + parsed[-1:]:
        rep.sample({"edits": p.get("edits", []), "text": tree_text(p["t"])[:400]})
    rep.cov["traces_validated_against_impl"] = len(events)
    rep.cov["evaluations"] = len(events)
    rep.cov["rule"] = RULE10
    rep.assumptions += [
        "spec/SchemaJson.tla Meaning (reference schema reader written from the specification's Names / Aliases / Logical Types sections) is the oracle; that a strict-JSON writer inverse to it exists is model-checked (RoundTripSatisfiable)",
        "the harness' projection of apache_avro::Schema to an M-term (harness/src/bin/avh_c10.rs proj) and its duplicate-preserving JSON scanner are trusted; the container header's avro.schema entry is extracted by 30 lines of format reading in the harness",
        "grey zones, reported as drift only: attributes on the object form of a primitive and ignored logicalType keys have no place in the crate's data model",
    ]
    return rep.finish()
