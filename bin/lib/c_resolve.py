"""C08 (schema resolution) and C09 (compatibility verdicts): glue around MC_Resolve / MC_Compat,
the harness binaries avh_c08 / avh_c09 and the trace specs Trace_Resolve / Trace_Compat."""
import json
import random
import subprocess
from pathlib import Path
import vf

STEP_KINDS = ["Promote", "PromoteStrBytes", "AnnotateLogical", "Demote", "ChangeType", "ChangeFixedSize",
              "AddSymbol", "RemoveSymbol", "ReorderSymbols", "SetEnumDefault",
              "AddBranch", "RemoveBranch", "ReorderBranches", "UnwrapFromUnion", "WrapInUnion",
              "ChangeItems", "ChangeValues",
              "AddFieldWithDefault", "AddFieldNoDefault", "RemoveField", "Reorder",
              "RenameWithAlias", "RenameWithoutAlias", "RemoveDefault"]


def harness(binary, args, timeout=1800):
    exe = vf.HARNESS / "target" / "release" / binary
    p = subprocess.run([str(exe)] + [str(a) for a in args], stdout=subprocess.PIPE, stderr=subprocess.PIPE,
                       text=True, timeout=timeout)
    if p.returncode != 0:
        raise vf.ToolError(f"harness {binary} {args[0]} exited {p.returncode}: {p.stderr[-2000:]}")
    return p


def kinds_of(scn):
    return [h["kind"].split(":")[0] for h in scn["hist"]]


def model_scenarios(work, rep, tier):
    """TLC explores the evolution state machine; returns the scenario dicts (sorted, deterministic)."""
    cfg = "MC_Resolve_q.cfg" if tier == "quick" else "MC_Resolve_t.cfg"
    r = vf.tlc_mc(work, "MC_Resolve.tla", cfg, workers=4, timeout=1500)
    vf.log(f"MC_Resolve/{cfg}: {r.distinct} states in {r.wall:.0f}s")
    if not r.ok:
        # a law of the design fails on the specification itself: a tool problem, not a verdict on the code
        raise vf.ToolError(f"MC_Resolve: law violated on the model: {r.violated}")
    rep.add_states(r.distinct, r.generated)
    lines = sorted(set(r.tagged("SCN")))
    if not lines:
        raise vf.ToolError("MC_Resolve emitted no scenarios (vacuous run)")
    scns = [json.loads(s) for s in lines]
    seen = set()
    for s in scns:
        seen.update(kinds_of(s))
    missing = [k for k in STEP_KINDS if k not in seen]
    if missing:
        raise vf.ToolError(f"MC_Resolve never took step kinds {missing} (vacuous)")
    return scns


def select(scns, seed, short_budget, long_budget):
    """the seeds themselves, a seeded sample of the one-step pairs (thorough: all of them) and of the longer ones;
    the model laws were checked by TLC on all of them"""
    rnd = random.Random(seed)
    zero = [s for s in scns if len(s["hist"]) == 0]
    short = [s for s in scns if len(s["hist"]) == 1]
    longer = [s for s in scns if len(s["hist"]) > 1]
    if len(short) > short_budget:
        short = rnd.sample(short, short_budget)
    if len(longer) > long_budget:
        longer = rnd.sample(longer, long_budget)
    return zero + short + longer


def run_c08(prop, tier, seed, replay=None):
    rep = vf.Report(prop, tier, seed)
    vf.build_harness()
    work = vf.fresh_workdir(f"{prop}-{tier}")
    if replay:
        payload = json.loads(Path(replay).read_text())["payload"]
        scns = [payload["scenario"]]
        n_model = 0
    else:
        model = model_scenarios(work, rep, tier)
        n_model = len(model)
        sb, lb, nrand, maxlen = (450, 300, 110, 5) if tier == "quick" else (100000, 5000, 800, 6)
        scns = select(model, seed, sb, lb)
        rf = work / "rand.scn.ndjson"
        harness("avh_c08", ["gen", "--seed", seed, "--count", nrand, "--maxlen", maxlen, "--out", rf])
        rand = [json.loads(l) for l in rf.read_text().splitlines() if l.strip()]
        if len(rand) < nrand // 2:
            raise vf.ToolError(f"random evolution generator produced only {len(rand)} pairs")
        scns += rand
    scn_file = work / "all.scn.ndjson"
    scn_file.write_text("\n".join(json.dumps(s) for s in scns) + "\n")
    ev_file = work / "events.ndjson"
    harness("avh_c08", ["run", "--scn", scn_file, "--out", ev_file])
    events = [l for l in ev_file.read_text().splitlines() if l.strip()]
    if len(events) != len(scns):
        raise vf.ToolError(f"harness recorded {len(events)} events for {len(scns)} scenarios")
    t_j = __import__('time').time()
    # few JVMs (start-up costs ~10 s each), but chunks small enough to stay far below the per-JVM time-out on a loaded box
    chunk = max(150, -(-len(events) // (8 if tier == "quick" else 20)))
    verdicts, st, tr = vf.judge_events(work, "Trace_Resolve.tla", "Trace_Resolve.cfg", events, chunk=chunk, jobs=4,
                                       timeout=2400)
    rep.add_states(st, tr)
    vf.log(f"judged {len(events)} events in {__import__('time').time() - t_j:.0f}s")
    ncases = sum(len(s["vals"]) for s in scns)
    rep.cov["traces_validated_against_impl"] = len(events)
    rep.cov["evaluations"] = ncases
    rep.cov["distinct_nontrivial"] = vf.distinct_hashes([{"W": s["W"], "R": s["R"]} for s in scns if s["hist"]])
    rep.cov["exhaustive"] = False
    rep.cov["model_pairs_explored"] = n_model
    rep.cov["rule"] = (
        "TLC explores MC_Resolve (evolution state machine over 40 seed writer schemas x 24 step kinds; quick: 2 steps from 4"
        " seeds, 1 step from the others; thorough: 3 steps from 2 seeds, 2 steps from 16, 1 step from the others) and checks"
        " the resolution laws (result conforms to R, idempotence, identity on W=R, safe steps always readable) on EVERY explored"
        " (W,R,value) under the grey-zone readings. Executed on the real crate: the seeds themselves, the one-step pairs (quick:"
        " seeded sample of 450; thorough: all), a seeded sample of the longer ones (300 / 5000) and seeded random step sequences"
        " of length <= 5/6 from random seed schemas (110 / 800); each pair x each boundary value of W through the three entry"
        " points, judged by Trace_Resolve.tla. evaluations = (W,R,value) triples executed; traces = (W,R) pairs;"
        " non-trivial = pairs with at least one step; distinct = distinct (W,R) hashes.")
    for s in scns[:1] + scns[len(scns) // 2: len(scns) // 2 + 2] + scns[-2:]:
        rep.sample({"W": s["W"], "R": s["R"], "hist": [h["kind"] for h in s["hist"]], "values": len(s["vals"])})
    rep.assumptions += [
        "spec/Resolve.tla (transcription of the specification's Schema Resolution section, DESIGN B.5) is the oracle; its laws are model-checked by MC_Resolve; spec/Ieee.tla carries independently computed rounding vectors as ASSUMEs",
        "named types are compared by full name; the universes never contain two full names with the same unqualified name",
        "modelled fragment: primitives, int/long-based logical types, fixed, enum, array, map, union, record, references (decimal/uuid/duration/big-decimal are not evolved)",
        "grey zones accepted in every reading: first-match vs exact-match-first union branch, deep vs shallow array/map matching in branch selection, union default = first branch vs first fitting branch, NaN payloads",
        "the harness' term<->Value projection and schema-term renderer (harness/src/term.rs, resolve_common.rs) are trusted",
    ]

    def replay_of(i):
        return {"scenario": scns[i], "event": json.loads(events[i])}

    if tier == "thorough" and not replay:
        selftest_c08(work, events, verdicts, rep)
    rep.classify(verdicts, replay_of)
    return rep.finish()


def selftest_c08(work, events, verdicts, rep):
    """binding self-test: corrupt one recorded field of an accepted event -> the trace spec must reject it"""
    flagged = {v["id"] for v in verdicts}
    for line in events:
        e = json.loads(line)
        if e["id"] in flagged or not e["parse_ok"] or not e["cases"]:
            continue
        c = e["cases"][0]
        if not (c["dr"]["ok"] and c["terms"]):
            continue
        a = json.loads(line); a["id"] = 0
        a["cases"][0]["dr_valid"] = False
        b = json.loads(line); b["id"] = 1
        b["cases"][0]["cr"] = {"ok": False, "panic": False, "ti": 0, "err": "selftest"}
        c2 = json.loads(line); c2["id"] = 2
        c2["cases"][0]["dr_again"] = {"ok": False, "panic": False, "ti": 0, "err": "selftest"}
        vs, _, _ = vf.judge_events(work, "Trace_Resolve.tla", "Trace_Resolve.cfg",
                                   [json.dumps(x) for x in (a, b, c2)], chunk=10, jobs=1)
        got = {v["id"]: set(v["fail"]) for v in vs}
        want = {0: "C08:validates-datum", 1: "C08:result-container", 2: "C08:idempotent-datum"}
        for i, cl in want.items():
            if cl not in got.get(i, set()):
                raise vf.ToolError(f"binding self-test: corrupted field not rejected ({cl}); got {got}")
        rep.cov["selftest"] = "3 corrupted fields of an accepted event rejected"
        return
    raise vf.ToolError("binding self-test: no accepted event to corrupt")


# --------------------------------------------------------------------------------------------
# C09
# --------------------------------------------------------------------------------------------
def group_by_writer(scns):
    """(W, R, hist, vals) scenarios -> one line per writer schema with all its readers"""
    groups = {}
    for s in sorted(scns, key=lambda x: len(x["hist"])):
        k = json.dumps(s["W"], sort_keys=True)
        g = groups.setdefault(k, {"W": s["W"], "vals": s["vals"], "readers": []})
        g["readers"].append({"R": s["R"], "hist": s["hist"]})
    return [groups[k] for k in sorted(groups)]


def run_c09(prop, tier, seed, replay=None):
    rep = vf.Report(prop, tier, seed)
    vf.build_harness()
    work = vf.fresh_workdir(f"{prop}-{tier}")
    n_enum = n_evo = 0
    if replay:
        payload = json.loads(Path(replay).read_text())["payload"]
        lines = [payload["scenario"]]
    else:
        # (a) the evolution pairs of C08 (the model law SafeHistory => readable is checked on all of them)
        cfg = "MC_Resolve_1.cfg" if tier == "quick" else "MC_Resolve_q.cfg"
        r = vf.tlc_mc(work, "MC_Resolve.tla", cfg, workers=4, timeout=1500)
        vf.log(f"MC_Resolve/{cfg}: {r.distinct} states in {r.wall:.0f}s")
        if not r.ok:
            raise vf.ToolError(f"MC_Resolve: law violated on the model: {r.violated}")
        rep.add_states(r.distinct, r.generated)
        evo = [json.loads(s) for s in sorted(set(r.tagged("SCN")))]
        if not any(s["hist"] and all(h["safe"] for h in s["hist"]) for s in evo):
            raise vf.ToolError("no safe history among the evolution pairs (vacuous)")
        rnd = random.Random(seed)
        longer = [s for s in evo if len(s["hist"]) > 1]
        if len(longer) > 1500:
            longer = rnd.sample(longer, 1500)
        evo = [s for s in evo if len(s["hist"]) <= 1] + longer
        n_evo = len(evo)
        lines = group_by_writer(evo)
        rf = work / "rand.scn.ndjson"
        nrand = 60 if tier == "quick" else 500
        harness("avh_c09", ["gen", "--seed", seed, "--count", nrand, "--maxlen", 4, "--out", rf])
        lines += [json.loads(l) for l in rf.read_text().splitlines() if l.strip()]
        # (b) all ordered pairs of the bounded-exhaustive enumeration
        cfg = "MC_Compat_q.cfg" if tier == "quick" else "MC_Compat_t.cfg"
        r = vf.tlc_mc(work, "MC_Compat.tla", cfg, workers=2, timeout=900)
        if not r.ok:
            raise vf.ToolError(f"MC_Compat: law violated on the model: {r.violated}")
        rep.add_states(r.distinct, r.generated)
        enum = [json.loads(s) for s in sorted(set(r.tagged("ENUM")))]
        if len(enum) < 30:
            raise vf.ToolError(f"enumeration has only {len(enum)} schemas")
        n_enum = len(enum)
        for w in enum:
            lines.append({"W": w["W"], "vals": w["vals"], "readers": [{"R": x["W"], "hist": []} for x in enum]})
    scn_file = work / "all.scn.ndjson"
    scn_file.write_text("\n".join(json.dumps(s) for s in lines) + "\n")
    ev_file = work / "events.ndjson"
    harness("avh_c09", ["run", "--scn", scn_file, "--out", ev_file])
    events = [l for l in ev_file.read_text().splitlines() if l.strip()]
    if len(events) != len(lines):
        raise vf.ToolError(f"harness recorded {len(events)} events for {len(lines)} scenarios")
    parsed = [json.loads(l) for l in events]
    pairs = sum(len(e["readers"]) for e in parsed)
    reads = sum(len(r["reads"]) for e in parsed for r in e["readers"])
    full = sum(1 for e in parsed for r in e["readers"] if r["cr_wr"]["vd"] == "Full" and r["reads"])
    if not replay and full == 0:
        raise vf.ToolError("no pair was reported Full (soundness clause vacuous)")
    import time
    t_j = time.time()
    chunk = max(20, -(-len(events) // (8 if tier == "quick" else 16)))
    verdicts, st, tr = vf.judge_events(work, "Trace_Compat.tla", "Trace_Compat.cfg", events, chunk=chunk, jobs=4, timeout=2400)
    vf.log(f"judged {len(events)} events ({pairs} pairs, {reads} reads) in {time.time() - t_j:.0f}s")
    rep.add_states(st, tr)
    rep.cov["traces_validated_against_impl"] = pairs
    rep.cov["evaluations"] = reads
    rep.cov["distinct_nontrivial"] = full
    rep.cov["exhaustive"] = False
    rep.cov["enumeration_schemas"] = n_enum
    rep.cov["evolution_pairs"] = n_evo
    rep.cov["rule"] = (
        "pairs = the evolution pairs explored by MC_Resolve (all of <= 1 step, seeded sample of longer ones) + seeded random"
        " evolution pairs + ALL ordered pairs of MC_Compat's schema enumeration (incl. recursive shapes, one named type in two"
        " fields in both orders, equal-named references with different definitions). For every pair the four verdicts and"
        " can_read(R,R) are recorded, and the real read with R of every boundary value of W. traces = (W,R) pairs judged;"
        " evaluations = reads executed; non-trivial = pairs reported Full with at least one value read.")
    for e in parsed[:1] + parsed[-2:]:
        rep.sample({"W": e["W"], "readers": len(e["readers"]), "values": len(e["vals"]),
                    "first_reader": {"R": e["readers"][0]["R"], "can_read": e["readers"][0]["cr_wr"]["vd"]} if e["readers"] else {}})
    rep.assumptions += [
        "spec/Resolve.tla is the oracle for 'readable' (used to attribute failures and for the drift reports); the verdict-layer clauses use only recorded verdicts and recorded reads",
        "SafeHistory is computed in TLA+ from the recorded step kinds; for harness-generated histories the claim is cross-checked (every recorded value must resolve in every reading, else TOOL error)",
        "named types are compared by full name; the universes never contain two full names with the same unqualified name",
    ]

    def replay_of(i):
        return {"scenario": lines[i], "event": parsed[i]}

    if tier == "thorough" and not replay:
        selftest_c09(work, parsed, verdicts, rep)
    rep.classify(verdicts, replay_of)
    return rep.finish()


def selftest_c09(work, parsed, verdicts, rep):
    """binding self-test: flip recorded fields of an accepted pair -> the trace spec must reject"""
    flagged = {v["id"] for v in verdicts}
    for e in parsed:
        if not e["parse_ok"]:
            continue
        # the pair (W, W): never the subject of a known finding
        idx = [i for i, r in enumerate(e["readers"]) if r["parse_ok"] and r["R"] == e["W"] and r["cr_wr"]["vd"] == "Full"
               and r["reads"] and all(x["ok"] for x in r["reads"])]
        if not idx:
            continue
        i = idx[0]
        a = json.loads(json.dumps(e)); a["id"] = 0; a["readers"] = [a["readers"][i]]
        a["readers"][0]["reads"][0]["ok"] = False
        b = json.loads(json.dumps(e)); b["id"] = 1; b["readers"] = [b["readers"][i]]
        b["readers"][0]["mu_rw"]["vd"] = "Partial" if b["readers"][0]["mu_wr"]["vd"] != "Partial" else "Full"
        c = json.loads(json.dumps(e)); c["id"] = 2; c["readers"] = [c["readers"][i]]
        c["readers"][0]["cr_rr"]["vd"] = "Partial"
        vs, _, _ = vf.judge_events(work, "Trace_Compat.tla", "Trace_Compat.cfg",
                                   [json.dumps(x) for x in (a, b, c)], chunk=10, jobs=1)
        got = {v["id"]: set(v["fail"]) for v in vs}
        want = {0: "C09:full-but-read-fails", 1: "C09:mutual-not-symmetric", 2: "C09:self-not-full"}
        for k, cl in want.items():
            if cl not in got.get(k, set()):
                raise vf.ToolError(f"binding self-test: corrupted field not rejected ({cl}); got {got}")
        rep.cov["selftest"] = "3 corrupted fields of an accepted pair rejected"
        return
    raise vf.ToolError("binding self-test: no accepted Full pair to corrupt")
