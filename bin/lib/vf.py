"""Glue for the TLA+-based checks: run TLC (model checking / trace judging), run the harness,
classify verdicts against known_findings.json, write evidence.  The glue never decides whether
behaviour is right: that is done by the TLA+ specifications; it only moves files and counts."""
import fcntl
import hashlib
import json
import os
import re
import shutil
import subprocess
import sys
import time
from concurrent.futures import ThreadPoolExecutor
from pathlib import Path

ROOT = Path(__file__).resolve().parents[2]
SPEC = ROOT / "spec"
WORK = ROOT / "work"
HARNESS = ROOT / "harness"
AVH = HARNESS / "target" / "release" / "avh"
KNOWN_FILE = ROOT / "known_findings.json"
TLA_CP = "/opt/veriftools/tla/tla2tools.jar:/opt/veriftools/tla/CommunityModules-deps.jar"


class ToolError(Exception):
    pass


def log(msg):
    print(f"[check] {msg}", file=sys.stderr, flush=True)


# --------------------------------------------------------------------------------------------
# building the harness against /repo's current working tree
# --------------------------------------------------------------------------------------------
def build_harness(timeout=1800):
    WORK.mkdir(exist_ok=True)
    lock = open(WORK / ".build.lock", "w")
    fcntl.flock(lock, fcntl.LOCK_EX)
    try:
        t0 = time.time()
        env = dict(os.environ, CARGO_NET_OFFLINE="true")
        p = subprocess.run(
            ["cargo", "build", "--release", "--offline"],
            cwd=HARNESS, env=env, stdout=subprocess.PIPE, stderr=subprocess.STDOUT, text=True, timeout=timeout)
        if p.returncode != 0:
            sys.stderr.write(p.stdout[-6000:])
            raise ToolError("cargo build of the harness failed (does /repo still compile?)")
        log(f"harness built in {time.time() - t0:.1f}s")
    finally:
        fcntl.flock(lock, fcntl.LOCK_UN)
        lock.close()


def avh(args, timeout=1800, env=None, check=True, stdin=None):
    e = dict(os.environ)
    if env:
        e.update(env)
    p = subprocess.run([str(AVH)] + [str(a) for a in args], env=e, stdout=subprocess.PIPE,
                       stderr=subprocess.PIPE, text=True, timeout=timeout, input=stdin)
    if check and p.returncode != 0:
        raise ToolError(f"harness {args[0]} exited {p.returncode}: {p.stderr[-2000:]}")
    return p


# --------------------------------------------------------------------------------------------
# work directories: a private copy of the spec plus the generated Known.tla
# --------------------------------------------------------------------------------------------
def load_known():
    if not KNOWN_FILE.exists():
        return []
    return json.loads(KNOWN_FILE.read_text())["findings"]


def fresh_workdir(name):
    d = WORK / name
    if d.exists():
        shutil.rmtree(d, ignore_errors=True)
    (d / "spec").mkdir(parents=True)
    for f in SPEC.iterdir():
        if f.suffix in (".tla", ".cfg"):
            shutil.copy(f, d / "spec" / f.name)
    ids = sorted(f["id"] for f in load_known() if f.get("status") == "known")
    body = "{" + ", ".join('"%s"' % i for i in ids) + "}"
    (d / "spec" / "Known.tla").write_text(
        "------------------------------- MODULE Known -------------------------------\n"
        "(* generated from known_findings.json: ids of findings with status \"known\" *)\n"
        f"KnownIds == {body}\n"
        "=============================================================================\n")
    return d


# --------------------------------------------------------------------------------------------
# TLC
# --------------------------------------------------------------------------------------------
_STR = re.compile(r'^"(.*)"$')


def printed_strings(out):
    """Strings printed by PrintT("..."): one per output line, TLA+-escaped."""
    res = []
    for line in out.splitlines():
        m = _STR.match(line.strip())
        if m:
            try:
                res.append(json.loads(line.strip()))
            except Exception:
                res.append(m.group(1).replace('\\"', '"').replace("\\\\", "\\"))
    return res


class TlcResult:
    def __init__(self, out, wall):
        self.out = out
        self.wall = wall
        self.printed = printed_strings(out)
        m = re.search(r"(\d+) states generated, (\d+) distinct states found", out)
        self.generated = int(m.group(1)) if m else 0
        self.distinct = int(m.group(2)) if m else 0
        m = re.search(r"depth of the complete state graph search is (\d+)", out)
        self.depth = int(m.group(1)) if m else 0
        self.ok = "Model checking completed. No error has been found." in out
        self.violated = re.findall(r"Invariant (\S+) is violated|Temporal properties were violated|Action property (\S+) is violated", out)

    def tagged(self, tag):
        pre = tag + " "
        return [s[len(pre):] for s in self.printed if s.startswith(pre)]


def tlc(workdir, module, cfg, workers=8, timeout=900, env=None, xmx="6g", extra=(), deque=False, meta="md"):
    e = dict(os.environ)
    opts = f"-Xss1g -Xmx{xmx}"
    if deque:
        opts += " -Dtlc2.tool.queue.IStateQueue=StateDeque"
    e["JAVA_TOOL_OPTIONS"] = opts
    if env:
        e.update({k: str(v) for k, v in env.items()})
    cmd = ["timeout", "-k", "10", str(timeout), "java", "-XX:+UseParallelGC", "-cp", TLA_CP, "tlc2.TLC",
           "-workers", str(workers), "-metadir", str(Path(workdir) / meta), "-cleanup", "-noGenerateSpecTE",
           "-config", cfg] + list(extra) + [module]
    t0 = time.time()
    p = subprocess.run(cmd, cwd=Path(workdir) / "spec", env=e, stdout=subprocess.PIPE, stderr=subprocess.STDOUT, text=True)
    r = TlcResult(p.stdout, time.time() - t0)
    r.rc = p.returncode
    if p.returncode in (124, 137):
        raise ToolError(f"TLC timed out after {timeout}s on {module}/{cfg}")
    return r


def tlc_mc(workdir, module, cfg, **kw):
    """Model-check; any invariant violation / error is returned to the caller (r.ok False)."""
    r = tlc(workdir, module, cfg, **kw)
    if not r.ok and not r.violated:
        tail = "\n".join(l for l in r.out.splitlines() if not l.startswith(("Semantic", "Parsing", "Linting")))[-3000:]
        raise ToolError(f"TLC failed on {module}/{cfg}:\n{tail}")
    return r


def tlc_judge_file(workdir, module, cfg, trace_file, idx, timeout=900):
    r = tlc(workdir, module, cfg, workers=1, timeout=timeout, env={"TRACE": str(trace_file)}, xmx="3g",
            deque=True, meta=f"md-j{idx}")
    consumed = [s for s in r.printed if s.startswith("CONSUMED ")]
    if not consumed:
        tail = "\n".join(l for l in r.out.splitlines() if not l.startswith(("Semantic", "Parsing", "Linting")))[-3000:]
        raise ToolError(f"trace spec {module} did not consume {trace_file}:\n{tail}")
    return r


def judge_groups(workdir, module, cfg, groups, per_chunk=300, jobs=8, timeout=900):
    """Like judge_events, but `groups` is a list of lists of lines (one behaviour each) that are never split."""
    tdir = Path(workdir) / "traces"
    tdir.mkdir(exist_ok=True)
    files = []
    for i in range(0, len(groups), per_chunk):
        f = tdir / f"{module}-g{i // per_chunk:04d}.ndjson"
        f.write_text("\n".join("\n".join(g) for g in groups[i:i + per_chunk]) + "\n")
        files.append(f)
    verdicts, states, trans = [], 0, 0

    def one(a):
        i, f = a
        return tlc_judge_file(workdir, module, cfg, f, f"g{i}", timeout=timeout)

    with ThreadPoolExecutor(max_workers=jobs) as ex:
        for r in ex.map(one, enumerate(files)):
            states += r.distinct
            trans += r.generated
            seen = set()
            for s in r.tagged("VERDICT"):
                if s not in seen:
                    seen.add(s)
                    verdicts.append(json.loads(s))
            if "is violated" in r.out:
                raise ToolError(f"an invariant of {module} was violated while replaying a recorded trace:\n" + r.out[-1500:])
    return verdicts, states, trans


def judge_events(workdir, module, cfg, lines, chunk=1500, jobs=8, timeout=900):
    """Split recorded events into chunks, judge each with its own JVM, return (verdicts, states, transitions).
    A verdict is the dict printed by the trace spec for an event that is not clean."""
    tdir = Path(workdir) / "traces"
    tdir.mkdir(exist_ok=True)
    files = []
    for i in range(0, len(lines), chunk):
        f = tdir / f"{module}-{i // chunk:04d}.ndjson"
        f.write_text("\n".join(lines[i:i + chunk]) + "\n")
        files.append(f)
    verdicts, states, trans = [], 0, 0

    def one(a):
        i, f = a
        return tlc_judge_file(workdir, module, cfg, f, i, timeout=timeout)

    with ThreadPoolExecutor(max_workers=jobs) as ex:
        for r in ex.map(one, enumerate(files)):
            states += r.distinct
            trans += r.generated
            seen = set()
            for s in r.tagged("VERDICT"):
                if s in seen:
                    continue
                seen.add(s)
                verdicts.append(json.loads(s))
    return verdicts, states, trans


# --------------------------------------------------------------------------------------------
# report / evidence
# --------------------------------------------------------------------------------------------
class Report:
    def __init__(self, prop, tier, seed, level="model_checking"):
        self.prop, self.tier, self.seed, self.level = prop, tier, seed, level
        self.t0 = time.time()
        self.violations = []      # (clause, replay path, summary)
        self.known = {}           # finding id -> count
        self.drift = {}           # drift name -> count
        self.other = {}           # clauses of other properties seen on the way
        self.tool = []
        self.cov = {"states": 0, "transitions": 0, "traces_validated_against_impl": 0, "samples": [],
                    "evaluations": 0, "distinct_nontrivial": 0, "rule": "", "exhaustive": False}
        self.assumptions = []
        self.findings = {f["id"]: f for f in load_known()}

    def add_states(self, states, transitions):
        self.cov["states"] += states
        self.cov["transitions"] += transitions

    def sample(self, x, limit=6):
        if len(self.cov["samples"]) < limit:
            self.cov["samples"].append(x)

    def classify(self, verdicts, replay_of):
        """verdicts: list of dicts with id, fail, known (list of "findingid|clause"), drift.
        replay_of(id) -> JSON-serialisable scenario/event for the replay file."""
        for v in verdicts:
            for d in v.get("drift", []):
                self.drift[d] = self.drift.get(d, 0) + 1
            for k in v.get("known", []):
                fid = k.split("|")[0]
                f = self.findings.get(fid)
                if f is not None and f.get("property") == self.prop:
                    self.known[fid] = self.known.get(fid, 0) + 1
            mine = []
            for c in v.get("fail", []):
                if c.startswith("TOOL:"):
                    self.tool.append((v.get("id"), c))
                elif c.startswith(self.prop + ":"):
                    mine.append(c)
                else:
                    self.other[c] = self.other.get(c, 0) + 1
            if mine:
                self.add_violation(mine, replay_of(v.get("id")), v.get("id"))

    def add_violation(self, clauses, payload, ident):
        d = ROOT / "replays" / self.prop
        d.mkdir(parents=True, exist_ok=True)
        n = len(self.violations)
        path = d / f"{self.tier}-{n:03d}.json"
        if n < 25:
            path.write_text(json.dumps({"property": self.prop, "clauses": clauses, "ident": ident, "payload": payload}, indent=1))
        self.violations.append((clauses, str(path)))

    def finish(self):
        for fid, n in sorted(self.known.items()):
            f = self.findings[fid]
            print(f"KNOWN-FINDING: property={self.prop} {fid}: {f.get('what', '')} [{n} observation(s)]")
        for d, n in sorted(self.drift.items()):
            print(f"MODEL-DRIFT property={self.prop} {d} x{n}")
        for c, n in sorted(self.other.items()):
            print(f"NOTE property={self.prop} clause of another property observed: {c} x{n}")
        shown = 0
        for clauses, path in self.violations:
            if shown < 25:
                print(f"VIOLATION property={self.prop} replay={path} clauses={','.join(clauses)}")
            shown += 1
        cov = dict(self.cov)
        cov["model_drift"] = self.drift
        cov["known_findings"] = self.known
        cov["other_property_observations"] = self.other
        ev = {"property_id": self.prop, "tier": self.tier, "seed": self.seed, "level": self.level,
              "coverage": cov, "assumptions": self.assumptions, "wall_s": round(time.time() - self.t0, 1),
              "violations": len(self.violations)}
        (ROOT / "evidence").mkdir(exist_ok=True)
        (ROOT / "evidence" / f"{self.prop}.json").write_text(json.dumps(ev, indent=1) + "\n")
        if self.tool:
            print(f"TOOL-ERROR property={self.prop} {self.tool[:3]}")
            return 2
        if self.violations:
            return 1
        print(f"OK property={self.prop} tier={self.tier} states={cov['states']} traces={cov['traces_validated_against_impl']} wall={ev['wall_s']}s")
        return 0


def distinct_hashes(items):
    return len({hashlib.sha1(json.dumps(x, sort_keys=True).encode()).hexdigest() for x in items})
