"""C05 (untrusted bytes never panic/abort/hang/over-allocate) and C06 (decoded values conform)."""
import json
import subprocess
from pathlib import Path
import vf

RULE = ("Inputs: (a) every byte string of length <= MaxLen over 10 boundary bytes x 18 schemas, enumerated by TLC"
        " (MC_Decode, which also model-checks DecodedConforms/ReencodeStable on the transcription); (b) truncations at every"
        " offset, bit flips, byte sets, huge/negative lengths and duplicated slices of valid encodings of MC_Datum/seeded cases;"
        " each executed on the generic decoder and the schema-aware deserializer in child processes per allocation limit"
        " under catch_unwind + watchdog + counting allocator, each event judged by Trace_Decode.tla."
        " Non-trivial = input is not empty and not a valid encoding; distinct = distinct (schema, bytes, limit).")

MAXI = 2 ** 31 - 1


def run_cases(work, cases, limit, tag):
    """Run cases in child processes; a dying child (abort / watchdog) is attributed to the case that had begun."""
    cin = work / f"cases-{tag}.ndjson"
    cin.write_text("\n".join(json.dumps(c) for c in cases) + "\n")
    cout = work / f"events-{tag}.ndjson"
    if cout.exists():
        cout.unlink()
    start, events, restarts = 0, [], 0
    while start < len(cases):
        p = subprocess.run([str(vf.AVH.parent / "avh_c05"), "run", "--in", str(cin), "--out", str(cout),
                            "--limit", str(limit), "--from", str(start)],
                           stdout=subprocess.PIPE, stderr=subprocess.PIPE, text=True, timeout=3600)
        lines = [json.loads(x) for x in cout.read_text().splitlines() if x.strip()] if cout.exists() else []
        begun, done = None, 0
        events = []
        for x in lines:
            if "begin" in x:
                begun = x["begin"]
            else:
                events.append(x)
                begun = None
        if p.returncode == 0 and begun is None:
            break
        # the child died while case `begun` was running
        if begun is None:
            raise vf.ToolError(f"avh_c05 exited {p.returncode} outside a case: {p.stderr[-500:]}")
        outcome = "timeout" if p.returncode == 3 else "abort"
        c = cases[begun]
        ev = {"ev": "decode", "id": c["id"], "entry": c["entry"], "s": c["s"], "bytes": c["bytes"], "limit": min(limit, MAXI),
              "origin": c.get("origin", ""), "heavy": bool(c.get("heavy", False)), "outcome": outcome, "largest": MAXI if outcome == "abort" else 0, "peak": 0,
              "gen": {"ok": False, "panic": False, "v": {"t": "none"}, "consumed": 0, "err": outcome},
              "ser": {"ok": False, "panic": False, "v": {"t": "none"}, "consumed": 0, "err": outcome}, "res": []}
        with open(cout, "a") as f:
            f.write(json.dumps(ev) + "\n")
        start = begun + 1
        restarts += 1
        if restarts > 200:
            raise vf.ToolError("more than 200 aborting/hanging cases; giving up")
    lines = [json.loads(x) for x in cout.read_text().splitlines() if x.strip()]
    return [x for x in lines if "begin" not in x]


def _zz(n):
    z = (n << 1) ^ (n >> 63)
    out = []
    while True:
        if z < 0x80:
            out.append(z)
            return out
        out.append((z & 0x7F) | 0x80)
        z >>= 7


def multiblock_cases(first_id, limits):
    """Arrays/maps of zero- or one-byte-wide items written as k blocks, each block's count chosen relative to the
    allocation limit (limit/64, limit/8 items), positive and negative counts.  Inputs only; TLA+ judges."""
    null, f0 = {"k": "null"}, {"k": "fixed", "name": "Z0", "size": 0}
    erec = {"k": "record", "name": "ER", "fields": []}
    shapes = [("array", {"k": "array", "items": null}, 0), ("array", {"k": "array", "items": f0}, 0),
              ("array", {"k": "array", "items": erec}, 0), ("array", {"k": "array", "items": {"k": "boolean"}}, 1),
              ("map", {"k": "map", "values": null}, 1), ("map", {"k": "map", "values": {"k": "boolean"}}, 2)]
    out = []
    for limit in limits:
        if limit > (1 << 20):
            continue
        for kind, schema, width in shapes:
            for per in (max(1, limit // 64), max(1, limit // 8)):
                if per * width > 20000:
                    continue
                for k in (2, 40):
                    for neg in (False, True):
                        b = []
                        for _ in range(k):
                            if neg:
                                b += _zz(-per) + _zz(per * width)
                            else:
                                b += _zz(per)
                            b += [0] * (per * width)       # empty keys / false booleans
                        b += [0]
                        if len(b) <= 20000 * 41:
                            out.append({"id": first_id + len(out), "entry": "datum", "s": schema, "bytes": b,
                                        "origin": f"multiblock-{k}x{per}{'neg' if neg else ''}", "only_limit": limit, "heavy": True})
    return [c for c in out if len(c["bytes"]) <= 200000]


def sized_lie_cases(first_id, limits):
    """Array/map blocks in the sized layout (negative count, then a byte size) whose DECLARED BYTE SIZE is far above the
    allocation limit while almost no data follows; the collection sits where a decoder - or a deserializer that
    skips the field (Rust type lacking it) - meets it: top level, first / second record field, union branch, nested.
    Inputs only; TLA+ judges (allocation bound, outcome alphabet, decoder agreement)."""
    long_, int_, str_ = {"k": "long"}, {"k": "int"}, {"k": "string"}
    arr = {"k": "array", "items": long_}
    mp = {"k": "map", "values": str_}
    shapes = [
        (arr, []), (mp, []),
        ({"k": "record", "name": "SL1", "fields": [{"name": "a", "type": arr}, {"name": "b", "type": int_}]}, []),
        ({"k": "record", "name": "SL2", "fields": [{"name": "a", "type": int_}, {"name": "b", "type": mp}]}, [2]),
        ({"k": "record", "name": "SL3", "fields": [{"name": "a", "type": int_}, {"name": "b", "type": arr}, {"name": "c", "type": int_}]}, [2]),
        ({"k": "union", "branches": [{"k": "null"}, arr]}, [2]),
        ({"k": "array", "items": arr}, [2]),            # outer block of one item, then the lying inner block
    ]
    out = []
    for limit in limits:
        if limit > (1 << 20):
            continue
        for schema, prefix in shapes:
            for size in (16 * limit + 1, 1 << 26):
                for count in (1, 3):
                    for tail in ([], [2, 2, 0]):
                        b = list(prefix) + _zz(-count) + _zz(size) + tail
                        out.append({"id": first_id + len(out), "entry": "datum", "s": schema, "bytes": b,
                                    "origin": f"sizedlie-{count}x{size}", "only_limit": limit})
    return out


def big_payload_cases(first_id, limits):
    """bytes / string / fixed / decimal payloads whose DECLARED length (70 000, 300 000) is above any internal chunk size
    but within the allocation limit, while the input ends inside the payload: must be an error, never a shortened value.
    Inputs only; TLA+ judges."""
    rec = lambda name, t: {"k": "record", "name": name, "fields": [{"name": "a", "type": {"k": "int"}}, {"name": "p", "type": t}]}
    out = []
    for n in (70000, 300000):
        if not any(l >= 4 * n for l in limits):
            continue
        lim = min(l for l in limits if l >= 4 * n)
        fx = {"k": "fixed", "name": f"Big{n}", "size": n}
        for present in (0, 1, 100, 3000):
            body = [7] * min(present, n - 1)
            for schema, prefix in (({"k": "bytes"}, _zz(n)), ({"k": "string"}, _zz(n)), (fx, []),
                                   (rec(f"RB{n}", {"k": "bytes"}), [2] + _zz(n)), (rec(f"RF{n}", fx), [2]),
                                   ({"k": "array", "items": {"k": "string"}}, [2] + _zz(n))):
                out.append({"id": first_id + len(out), "entry": "datum", "s": schema, "bytes": prefix + body,
                            "origin": f"bigpayload-{n}-{present}", "only_limit": lim})
    return out


def logical_text_cases(first_id):
    """well-formed strings that are not the text of the logical type (uuid on string): short, empty, 31 / 32+ characters"""
    us = {"k": "uuid", "base": "string"}
    rec = {"k": "record", "name": "RU", "fields": [{"name": "seq", "type": {"k": "int"}}, {"name": "id", "type": us}]}
    texts = [b"", b"-", b"not-a-uuid", b"0" * 31, b"z" * 32, b"550e8400-e29b-41d4-a716-44665544000", b"550e8400e29b41d4a716446655440000"]
    out = []
    for t in texts:
        body = _zz(len(t)) + list(t)
        for schema, prefix in ((us, []), (rec, [2]), ({"k": "array", "items": us}, [2]), ({"k": "union", "branches": [{"k": "null"}, us]}, [2])):
            tail = [0] if schema["k"] == "array" else []
            out.append({"id": first_id + len(out), "entry": "datum", "s": schema, "bytes": prefix + body + tail, "origin": "uuidtext"})
    return out


def run(prop, tier, seed, replay=None):
    rep = vf.Report(prop, tier, seed)
    vf.build_harness()
    work = vf.fresh_workdir(f"{prop}-{tier}")
    avh_c05 = vf.AVH.parent / "avh_c05"
    cases = []
    if replay:
        payload = json.loads(Path(replay).read_text())["payload"]
        cases = [payload["case"]]
        limits = [payload["limit"]]
    else:
        cfg = "MC_Decode_2.cfg" if tier == "quick" else "MC_Decode_3.cfg"
        r = vf.tlc_mc(work, "MC_Decode.tla", cfg, workers=8, timeout=1200)
        if not r.ok:
            raise vf.ToolError(f"MC_Decode invariant violated: {r.violated}")
        rep.add_states(r.distinct, r.generated)
        scn = sorted(set(r.tagged("SCN")))
        if not scn:
            raise vf.ToolError("MC_Decode emitted no scenarios")
        for sline in scn:
            j = json.loads(sline)
            cases.append({"id": len(cases), "entry": "datum", "s": j["s"], "bytes": j["bytes"], "origin": "enum"})
        # valid encodings and their damaged variants
        r2 = vf.tlc_mc(work, "MC_Datum.tla", "MC_Datum_d1.cfg", workers=8, timeout=1200)
        rep.add_states(r2.distinct, r2.generated)
        base = sorted(set(r2.tagged("SCN")))
        nrand, per = (150, 4) if tier == "quick" else (1500, 8)
        step = 3 if tier == "quick" else 1
        base = base[::step]
        rand_scn = work / "rand.scn.ndjson"
        vf.avh(["datum-gen", "--seed", seed, "--count", nrand, "--depth", 3, "--out", rand_scn])
        allscn = work / "mut.scn.ndjson"
        allscn.write_text("\n".join(base) + "\n" + rand_scn.read_text())
        mut = work / "mut.cases.ndjson"
        p = subprocess.run([str(avh_c05), "mutate", "--scn", str(allscn), "--out", str(mut), "--seed", str(seed),
                            "--per", str(per), "--first-id", str(len(cases))], stdout=subprocess.PIPE, stderr=subprocess.PIPE, text=True)
        if p.returncode != 0:
            raise vf.ToolError(f"avh_c05 mutate failed: {p.stderr[-500:]}")
        cases += [json.loads(x) for x in mut.read_text().splitlines() if x.strip()]
        if prop == "C05":
            # hostile container files, single-object messages, compressed blocks
            fcases = work / "files.cases.ndjson"
            p = subprocess.run([str(avh_c05), "gen-files", "--seed", str(seed), "--per", "10" if tier == "quick" else "60",
                                "--out", str(fcases), "--first-id", str(len(cases))], stdout=subprocess.PIPE, stderr=subprocess.PIPE, text=True)
            if p.returncode != 0:
                raise vf.ToolError(f"avh_c05 gen-files failed: {p.stderr[-500:]}")
            cases += [json.loads(x) for x in fcases.read_text().splitlines() if x.strip()]
            # a schema without finite values (see known finding C05-uninhabited-record-recursion)
            rec = {"k": "record", "name": "R", "fields": [{"name": "r", "type": {"k": "ref", "name": "R"}}]}
            cases.append({"id": len(cases), "entry": "datum", "s": rec, "bytes": [], "origin": "uninhabited"})
        limits = [4096, 1 << 20] if tier == "quick" else [4096, 65536, 1 << 20, 512 << 20]
        cases += big_payload_cases(len(cases), limits)
        cases += logical_text_cases(len(cases))
        if prop == "C05":
            # limit-aware hostile inputs: many blocks that are each below the limit but add up far beyond it
            cases += multiblock_cases(len(cases), limits)
            cases += sized_lie_cases(len(cases), limits)
    events = []
    # split the cases over the limits (each case under one limit; the enumerated set under the smallest and the largest)
    for li, limit in enumerate(limits):
        sel = [c for i, c in enumerate(cases)
               if (c.get("only_limit") == limit if "only_limit" in c else
                   ((i % len(limits)) == li or (c.get("origin") == "enum" and li in (0, len(limits) - 1) and i % 4 == 0)))] if not replay else cases
        evs = run_cases(work, sel, limit, f"L{limit}")
        for e in evs:
            e["id"] = len(events)
            events.append(e)
    lines = [json.dumps(e) for e in events]
    verdicts, st, tr = vf.judge_events(work, "Trace_Decode.tla", "Trace_Decode.cfg", lines, chunk=600, timeout=2400)
    rep.add_states(st, tr)
    with open(work / "verdicts.ndjson", "w") as f:
        for v in verdicts:
            e = events[v["id"]]
            f.write(json.dumps({"verdict": v, "event": e}) + "\n")
    rep.cov["traces_validated_against_impl"] = len(events)
    rep.cov["evaluations"] = len(events)
    nontriv = [{"s": e["s"], "b": e["bytes"], "l": e["limit"]} for e in events if e["bytes"] and e.get("origin") != "valid"]
    rep.cov["distinct_nontrivial"] = vf.distinct_hashes(nontriv)
    rep.cov["rule"] = RULE
    rep.cov["outcomes"] = {}
    for e in events:
        rep.cov["outcomes"][e["outcome"]] = rep.cov["outcomes"].get(e["outcome"], 0) + 1
    rep.cov["limits"] = limits
    for e in events[:2] + events[len(events) // 2: len(events) // 2 + 2] + events[-2:]:
        rep.sample({"schema": e["s"], "bytes": e["bytes"], "limit": e["limit"], "outcome": e["outcome"], "origin": e.get("origin")})
    rep.assumptions += [
        "instruments (not oracles): catch_unwind, a 10 s watchdog per input (inputs <= 4000 bytes), a counting global allocator (Rust allocations only)",
        "allocation bound = limit + 64 KiB slack (3 x limit + slack where the schema contains a map: hashbrown reserves buckets in powers of two)",
        "spec/AvroBinary.tla Parse is the independent decoder (non-minimal varints are accepted, DESIGN B.1 grey zone)",
    ]

    def replay_of(i):
        e = events[i]
        return {"case": {"id": 0, "entry": e["entry"], "s": e["s"], "bytes": e["bytes"], "origin": e.get("origin", "")},
                "limit": e["limit"], "event": e}

    rep.classify(verdicts, replay_of)
    return rep.finish()
