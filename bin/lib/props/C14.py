"""C14: a truncated or marker-corrupted file yields only a true prefix, then an error."""
import json
import subprocess
from pathlib import Path
import vf

RULE = ("ContainerReader.tla: the reader over a damaged abstract file (Cut(k) for every k, Corrupt(b) for every marker occurrence),"
        " TruePrefix / ErrorUnlessBoundary / Terminates (liveness) hold; the 'EOF inside the block count is a clean end' defect class must"
        " give the counterexample. Real files from the real Writer: {null, long, string} items x 6 codecs x {3, 100} items per block"
        " (a third of the 36 combinations per quick run, all in thorough), 2-4 blocks; EVERY byte offset as cut; every byte of every marker"
        " occurrence and of the magic altered with masks 01/80/FF; each damaged copy is read with Reader and judged by Trace_Damage.tla"
        " against the independent Container!ParseFile of the intact bytes. Non-trivial = cut strictly inside the file or a marker/magic"
        " alteration; distinct = distinct (file, kind, offset, mask). ReaderFn.tla/ReaderSession.tla model the Reader at the granularity"
        " of its code (message_count assigned before the marker is compared; the shared error latch; into_deser_iter); TLC checks"
        " OnlyVerified / TruePrefix / NothingAfterError / EndMeansAll / ErrorReported / Quiesces over every damage x every session"
        " shape and the two defect classes (latch per iterator, empty block ends the iteration) must give counterexamples. On the"
        " small files every damage is also driven as SESSIONS (call sequences: value polls, into_deser_iter at every position -"
        " also after the error -, deserializing polls, polls after the end) and each recorded call sequence is replayed on the"
        " model's Poll/Switch functions by Trace_Damage.tla (sessions / session_calls).")


def run(prop, tier, seed, replay=None):
    rep = vf.Report(prop, tier, seed)
    vf.build_harness()
    work = vf.fresh_workdir(f"{prop}-{tier}")
    r = vf.tlc_mc(work, "MC_ContainerReader.tla", "MC_ContainerReader.cfg", workers=4, timeout=600, extra=["-coverage", "1"])
    if not r.ok:
        raise vf.ToolError(f"ContainerReader model violated: {r.violated}")
    rep.add_states(r.distinct, r.generated)
    r2 = vf.tlc_mc(work, "MC_ContainerReader.tla", "MC_ContainerReader_defect.cfg", workers=4, timeout=600)
    if r2.ok:
        raise vf.ToolError("ContainerReader model: the EOF-inside-count counterexample was not found (invariants vacuous)")
    rep.add_states(r2.distinct, r2.generated)
    # the Reader at the granularity of its code (ReaderFn/ReaderSession): every damage x every session shape
    r3 = vf.tlc_mc(work, "MC_ReaderSession.tla", "MC_ReaderSession.cfg", workers=4, timeout=600, extra=["-coverage", "1"])
    if not r3.ok:
        raise vf.ToolError(f"ReaderSession model violated: {r3.violated}")
    rep.add_states(r3.distinct, r3.generated)
    for cfg, what in (("MC_ReaderSession_latch.cfg", "latch-per-iterator"), ("MC_ReaderSession_empty.cfg", "empty-block-ends-iteration")):
        rd = vf.tlc_mc(work, "MC_ReaderSession.tla", cfg, workers=4, timeout=600)
        if rd.ok:
            raise vf.ToolError(f"ReaderSession model: the {what} counterexample was not found (invariants vacuous)")
        rep.add_states(rd.distinct, rd.generated)
    ev_file = work / "events.ndjson"
    if replay:
        payload = json.loads(Path(replay).read_text())["payload"]
        rin = work / "replay.in.json"
        rin.write_text(json.dumps(payload))
        p = subprocess.run([str(vf.AVH.parent / "avh_c14"), "replay", "--in", str(rin), "--out", str(ev_file)],
                           stdout=subprocess.PIPE, stderr=subprocess.PIPE, text=True, timeout=600)
    else:
        p = subprocess.run([str(vf.AVH.parent / "avh_c14"), "run", "--out", str(ev_file), "--tier", tier, "--seed", str(seed)],
                           stdout=subprocess.PIPE, stderr=subprocess.PIPE, text=True, timeout=3000)
    if p.returncode != 0:
        raise vf.ToolError("avh_c14 failed: " + p.stderr[-400:])
    groups, cur = [], []
    for line in ev_file.read_text().splitlines():
        if not line.strip():
            continue
        if '"ev":"file"' in line and cur:
            groups.append(cur)
            cur = []
        cur.append(line)
    if cur:
        groups.append(cur)
    verdicts, st, tr = vf.judge_groups(work, "Trace_Damage.tla", "Trace_Damage.cfg", groups, per_chunk=2)
    rep.add_states(st, tr)
    evs = {}
    files = {}
    n = 0
    for g in groups:
        f = json.loads(g[0])
        files[f["fid"]] = f
        for line in g:
            e = json.loads(line)
            evs[e["id"]] = e
            n += 1
    rep.cov["traces_validated_against_impl"] = n
    rep.cov["evaluations"] = n
    dm = [e for e in evs.values() if e["ev"] == "damage"]
    ss = [e for e in evs.values() if e["ev"] == "session"]
    rep.cov["sessions"] = len(ss)
    rep.cov["session_calls"] = sum(len(e["calls"]) for e in ss)
    rep.cov["sessions_converted_after_error"] = sum(
        1 for e in ss if any(c["r"] == "switch" and any(x["r"] == "err" for x in e["calls"][:i]) for i, c in enumerate(e["calls"])))
    if not replay and (not ss or rep.cov["sessions_converted_after_error"] == 0):
        raise vf.ToolError("vacuous run: no session converts the reader after an error")
    rep.cov["distinct_nontrivial"] = len({(e["fid"], e["kind"], e["k"], e["mask"]) for e in dm
                                          if e["kind"] != "cut" or 0 < e["k"] < len(files[e["fid"]]["bytes"])})
    rep.cov["rule"] = RULE
    rep.cov["files"] = [{k: f[k] for k in ("codec", "kind", "per_block", "nblocks")} | {"len": len(f["bytes"])} for f in files.values()]
    rep.cov["exhaustive"] = True
    if not replay and (not any(e["kind"] == "marker" for e in dm) or not any(e["kind"] == "cut" and e["n_err"] > 0 for e in dm)):
        raise vf.ToolError("vacuous run: no marker alterations or no erroring cuts")
    for e in dm[100:102] + [x for x in dm if x["kind"] == "marker"][:1]:
        rep.sample({k: e[k] for k in ("fid", "kind", "k", "mask", "open_ok", "n_ok", "n_err", "after_err")})
    rep.assumptions += ["delivered values are compared with the intact read of the same file by the harness (mismatch position recorded); how many, when an error and what follows is decided by TLA+",
                        "block boundaries and counts come from the independent Container!ParseFile, not from the crate"]

    def replay_of(i):
        e = evs[i]
        return {"event": e, "file": files[e["fid"]] if "fid" in e else {}}

    rep.classify(verdicts, replay_of)
    return rep.finish()
