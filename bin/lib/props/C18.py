"""C18: single-object messages carry the spec header and reject foreign messages."""
import json
import subprocess
from pathlib import Path
import vf

RULE = ("SingleObject.tla: the reusable-buffer writer as a state machine (ok / rejected / sink failure; BufferIsHeaderBetweenCalls holds,"
        " and the skip-truncate defect class is shown to violate it). Real runs: for each schema of MC_Datum's universe [+ seeded random]"
        " a history ok, rejected, ok, sink-failure, ok... on ONE GenericSingleObjectWriter with values of different lengths, plus a typed"
        " history on SpecificSingleObjectWriter/Reader (write_value and write_ref, failing sinks in between); every successful message is"
        " judged by Trace_SingleObject.tla (header = C3 01 + LE CRC-64-AVRO of the canonical form computed in TLA+, datum parsed by the"
        " independent parser, both readers return the value); for a quarter of the histories every single-bit alteration (80) and every"
        " truncation (10) of the header must be rejected - always for the schemas whose datum is empty (null, empty record, record of nulls: the message is the header alone). Non-trivial = event is a write after an earlier failed call, or a damaged message;"
        " distinct = distinct event hashes.")


def run(prop, tier, seed, replay=None):
    rep = vf.Report(prop, tier, seed)
    vf.build_harness()
    work = vf.fresh_workdir(f"{prop}-{tier}")
    r = vf.tlc_mc(work, "SingleObject.tla", "MC_SingleObject.cfg", workers=4, timeout=600, extra=["-coverage", "1"])
    if not r.ok:
        raise vf.ToolError(f"SingleObject model violated: {r.violated}")
    rep.add_states(r.distinct, r.generated)
    r2 = vf.tlc_mc(work, "SingleObject.tla", "MC_SingleObject_defect.cfg", workers=4, timeout=600)
    if r2.ok:
        raise vf.ToolError("SingleObject model: skip-truncate counterexample not found (invariant vacuous)")
    rep.add_states(r2.distinct, r2.generated)
    rd = vf.tlc_mc(work, "MC_Datum.tla", "MC_Datum_d1.cfg", workers=8, timeout=1500)
    rep.add_states(rd.distinct, rd.generated)
    scns = sorted(set(rd.tagged("SCN")))
    # keep schemas whose values have no maps with 2 entries (entry order) -- the judge handles maps, but keep runs small
    step = 4 if tier == "quick" else 1
    by_schema = {}
    for s in scns:
        j = json.loads(s)
        by_schema.setdefault(json.dumps(j["s"], sort_keys=True), []).append(s)
    keys = sorted(by_schema)[seed % step::step]
    lines = []
    for k in keys:
        lines += by_schema[k][:4]
    rnd = work / "rand.scn"
    vf.avh(["datum-gen", "--seed", seed, "--count", 40 if tier == "quick" else 400, "--depth", 3, "--out", rnd])
    lines += [l for l in rnd.read_text().splitlines() if l.strip()]
    # schemas whose datum is zero bytes long: the message is the header alone
    nul = {"k": "null"}
    er = {"k": "record", "name": "ns.Empty", "fields": []}
    rn = {"k": "record", "name": "ns.Nulls", "fields": [{"name": "a", "type": nul}, {"name": "b", "type": er}]}
    for sch, val in ((nul, {"t": "null"}), (er, {"t": "record", "fields": []}),
                     (rn, {"t": "record", "fields": [["a", {"t": "null"}], ["b", {"t": "record", "fields": []}]]})):
        lines.append(json.dumps({"s": sch, "v": val, "layouts": []}))
    scn = work / "scn.ndjson"
    scn.write_text("\n".join(lines) + "\n")
    ev_file = work / "events.ndjson"
    p = subprocess.run([str(vf.AVH.parent / "avh_c18"), "run", "--scn", str(scn), "--out", str(ev_file)],
                       stdout=subprocess.PIPE, stderr=subprocess.PIPE, text=True, timeout=3000)
    if p.returncode != 0:
        raise vf.ToolError("avh_c18 failed: " + p.stderr[-400:])
    events = [l for l in ev_file.read_text().splitlines() if l.strip()]
    verdicts, st, tr = vf.judge_events(work, "Trace_SingleObject.tla", "Trace_SingleObject.cfg", events, chunk=400)
    rep.add_states(st, tr)
    evs = [json.loads(e) for e in events]
    rep.cov["traces_validated_against_impl"] = len(evs)
    rep.cov["evaluations"] = len(evs)
    nontriv = [e for e in evs if e["ev"] == "so-damage" or (e["ev"] in ("so-write", "so-glue") and e["step"] > 0)]
    rep.cov["distinct_nontrivial"] = vf.distinct_hashes([{k: e[k] for k in e if k != "id"} for e in nontriv])
    rep.cov["rule"] = RULE
    kinds = {}
    for e in evs:
        k = e["ev"] + ":" + (e.get("expect") or e.get("what", "")[:5])
        kinds[k] = kinds.get(k, 0) + 1
    rep.cov["event_kinds"] = kinds
    if not any(e["ev"] == "so-damage" for e in evs) or not any(e.get("expect") == "sinkfail" for e in evs):
        raise vf.ToolError("vacuous run: no damaged messages or no failing-sink calls")
    for e in evs[:1] + [x for x in evs if x["ev"] == "so-damage"][:2]:
        rep.sample({k: e[k] for k in e if k in ("ev", "expect", "s", "v", "res", "msg", "what", "damaged", "generic_ok")})
    rep.assumptions += ["the canonical form bytes fed to CRC-64-AVRO come from Schema::canonical_form(); that they follow the specification is property C12",
                        "CRC-64-AVRO (spec/Crc64.tla) and the binary encoding (spec/AvroBinary.tla) are computed by TLC"]
    rep.classify(verdicts, lambda i: {"event": evs[i]})
    return rep.finish()
