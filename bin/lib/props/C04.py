"""C04: object container files conform to the specified layout in both directions."""
import bz2
import json
import lzma
import subprocess
import zlib
from pathlib import Path
import vf

RULE = ("(library writes) schemas of MC_Datum's universe [+ seeded random] x up to 4 values (incl. empty files) x codecs (null always,"
        " the five others alternating) x block sizes {1,3,40,16000} x with/without user metadata: the real Writer's bytes are parsed by"
        " Container!ParseFile; payloads of deflate/bzip2/xz blocks are decompressed by Python zlib(raw)/bz2/lzma (reference codecs)."
        " (library reads) for the same (schema, values) TLC's BuildFiles assembles spec-conforming files for every block partition"
        " (one block, one value per block, 1+rest, rest+1, empty) and five metadata-map layouts (schema only, codec=null, two map blocks,"
        " negative count with byte size, unknown avro.* key + user keys); deflate/bzip2/xz variants are made from them with the reference"
        " compressors; the real Reader reads each. Non-trivial = file has at least one value; distinct = distinct file bytes.")


def zz(b, pos):
    z, shift = 0, 0
    while True:
        byte = b[pos]
        pos += 1
        z |= (byte & 0x7F) << shift
        shift += 7
        if not byte & 0x80:
            break
    return (z >> 1) ^ -(z & 1), pos


def enc_long(n):
    z = (n << 1) ^ (n >> 63)
    out = bytearray()
    while True:
        if z < 0x80:
            out.append(z)
            return bytes(out)
        out.append((z & 0x7F) | 0x80)
        z >>= 7


def split(b):
    """reference splitter (instrument): (meta list, marker, [(count, payload)])"""
    assert b[:4] == b"Obj\x01"
    pos, meta = 4, []
    while True:
        n, pos = zz(b, pos)
        if n == 0:
            break
        if n < 0:
            _, pos = zz(b, pos)
            n = -n
        if n > 10000:
            raise ValueError("implausible metadata count")
        for _ in range(n):
            kl, pos = zz(b, pos)
            k = b[pos:pos + kl]; pos += kl
            vl, pos = zz(b, pos)
            v = b[pos:pos + vl]; pos += vl
            meta.append((k, v))
    marker = b[pos:pos + 16]; pos += 16
    blocks = []
    while pos < len(b):
        c, pos = zz(b, pos)
        s, pos = zz(b, pos)
        if c < 0 or s < 0 or pos + s + 16 > len(b):
            raise ValueError("not a well-formed block")
        blocks.append((c, b[pos:pos + s])); pos += s + 16
    return meta, marker, blocks


def decompress(codec, payload):
    if codec == "deflate":
        return zlib.decompress(payload, -15)
    if codec == "bzip2":
        return bz2.decompress(payload)
    if codec == "xz":
        return lzma.decompress(payload, format=lzma.FORMAT_XZ)
    raise KeyError(codec)


def compress(codec, plain, variant):
    if codec == "deflate":
        c = zlib.compressobj(level=[0, 1, 9][variant % 3], wbits=-15)
        return c.compress(plain) + c.flush()
    if codec == "bzip2":
        return bz2.compress(plain, [1, 9][variant % 2])
    return lzma.compress(plain, format=lzma.FORMAT_XZ, preset=[0, 6][variant % 2])


def run(prop, tier, seed, replay=None):
    rep = vf.Report(prop, tier, seed)
    vf.build_harness()
    work = vf.fresh_workdir(f"{prop}-{tier}")
    avh = vf.AVH.parent / "avh_c04"
    rd = vf.tlc_mc(work, "MC_Datum.tla", "MC_Datum_d1.cfg", workers=8, timeout=1500)
    rep.add_states(rd.distinct, rd.generated)
    scns = sorted(set(rd.tagged("SCN")))
    by_schema = {}
    for s in scns:
        j = json.loads(s)
        by_schema.setdefault(json.dumps(j["s"], sort_keys=True), []).append(s)
    step = 5 if tier == "quick" else 1
    keys = sorted(by_schema)[seed % step::step]
    # always include the schemas whose values encode to zero bytes (empty block payloads)
    keys += [k for k in sorted(by_schema) if k not in keys and (json.loads(k).get("k") == "null"
             or (json.loads(k).get("k") == "record" and not json.loads(k).get("fields"))
             or (json.loads(k).get("k") == "fixed" and json.loads(k).get("size") == 0))]
    lines = []
    for k in keys:
        lines += by_schema[k][:4]
    rnd = work / "rand.scn"
    vf.avh(["datum-gen", "--seed", seed, "--count", 30 if tier == "quick" else 300, "--depth", 3, "--out", rnd])
    lines += [l for l in rnd.read_text().splitlines() if l.strip()]
    (work / "scn.ndjson").write_text("\n".join(lines) + "\n")
    prep = work / "prep.ndjson"
    subprocess.run([str(avh), "prep", "--scn", str(work / "scn.ndjson"), "--out", str(prep)], check=True, timeout=900)
    preps = [json.loads(l) for l in prep.read_text().splitlines() if l.strip()]
    # ---- library writes -> independent reads
    wev = work / "written.ndjson"
    subprocess.run([str(avh), "write", "--prep", str(prep), "--out", str(wev)], check=True, timeout=1800)
    events = []
    for l in wev.read_text().splitlines():
        e = json.loads(l)
        if e["codec"] in ("deflate", "bzip2", "xz"):
            try:
                _, _, blocks = split(bytes(e["bytes"]))
                e["plains"] = [list(decompress(e["codec"], p)) for _, p in blocks]
            except Exception:
                e["ref_ok"] = False
        events.append(e)
    # ---- independent writes -> library reads
    r = vf.tlc_judge_file(work, "BuildFiles.tla", "BuildFiles.cfg", prep, "build", timeout=1500)
    rep.add_states(r.distinct, r.generated)
    files = []
    for s in r.tagged("FILE"):
        f = json.loads(s)
        p = preps[f["src"]]
        f.update({"s": p["s"], "vals": p["vals"], "text": p["text"], "codec": "null"})
        files.append(f)
        # reference-compressed variants of some of them
        if f["vals"] and (f["src"] + len(f["part"])) % 3 == 0:
            codec = ["deflate", "bzip2", "xz"][(f["src"] + len(files)) % 3]
            meta, marker, blocks = split(bytes(f["bytes"]))
            meta = [(k, v) for k, v in meta if k != b"avro.codec"] + [(b"avro.codec", codec.encode())]
            b = bytearray(b"Obj\x01") + enc_long(len(meta))
            for k, v in meta:
                b += enc_long(len(k)) + k + enc_long(len(v)) + v
            b += b"\x00" + marker
            for i, (c, pl) in enumerate(blocks):
                cp = compress(codec, pl, i + f["src"])
                b += enc_long(c) + enc_long(len(cp)) + cp + marker
            g = dict(f)
            g.update({"bytes": list(b), "codec": codec})
            files.append(g)
    if not files:
        raise vf.ToolError("BuildFiles produced no files")
    ff = work / "files.ndjson"
    ff.write_text("\n".join(json.dumps(f) for f in files) + "\n")
    fev = work / "fed.ndjson"
    subprocess.run([str(avh), "read", "--files", str(ff), "--out", str(fev), "--first-id", str(len(events))], check=True, timeout=1800)
    events += [json.loads(l) for l in fev.read_text().splitlines() if l.strip()]
    for i, e in enumerate(events):
        e["id"] = i
    verdicts, st, tr = vf.judge_events(work, "Trace_Container.tla", "Trace_Container.cfg", [json.dumps(e) for e in events], chunk=250)
    rep.add_states(st, tr)
    rep.cov["traces_validated_against_impl"] = len(events)
    rep.cov["evaluations"] = len(events)
    rep.cov["distinct_nontrivial"] = vf.distinct_hashes([e["bytes"] for e in events if e["vals"]])
    rep.cov["rule"] = RULE
    kinds = {}
    for e in events:
        k = f'{e["ev"]}:{e["codec"]}'
        kinds[k] = kinds.get(k, 0) + 1
    rep.cov["files_by_direction_and_codec"] = kinds
    for e in events[:1] + [x for x in events if x["ev"] == "fed"][:2]:
        rep.sample({"direction": e["ev"], "codec": e["codec"], "schema": e["s"], "values": len(e["vals"]), "file_len": len(e["bytes"]),
                    "meta_layout": e.get("meta", ""), "partition": e.get("part", [])})
    rep.assumptions += ["Python zlib (raw deflate), bz2 and lzma are the reference codecs (sanctioned by the property); snappy and zstandard blocks written by the library are checked structurally only (no reference codec on this image; snappy is decoded in TLA+ by the C15 check)",
                        "the header must embed exactly serde_json::to_string(writer schema); that this JSON denotes the schema is property C10 (which has a known finding for null-namespace names inside a namespace)",
                        "reference-compressed files are assembled by the Python glue from TLC's null-codec file (same partition and metadata)"]
    rep.classify(verdicts, lambda i: {"event": {k: v for k, v in events[i].items() if k != "plains"}})
    return rep.finish()
