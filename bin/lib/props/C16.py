import c_serde


def run(prop, tier, seed, replay=None):
    return c_serde.run(prop, tier, seed, replay)
