"""C19: process-wide settings are first-set-wins, uniformly enforced and thread-safe.

1. TLC model-checks spec/Settings.tla (MC_Settings_*.cfg: 3 threads x <= 2 calls x 2-3 cells, all interleavings of
   Call/Begin/Finish/Observe/Return), a small fair instance with -coverage (every action taken, Progress), and the named
   deviation check-then-set (SpecBroken), for which TLC MUST find the WriteOnce / Agreement / ExactlyOneSetSucceeds
   counterexamples (vacuity guard).  Every explored program is a scenario.
2. harness avh_c19 runs programs (a seeded sample of TLC's + its own seeded random ones, 2-8 threads, 7 cells), each in a
   FRESH CHILD PROCESS, threads released together, every call/return stamped from one atomic counter.
3. TLC judges with spec/Trace_Settings.tla: each trial must have a linearization (silent Begin/Finish/Observe steps between
   call and ret); the limit probes (limit-1, limit, limit+1 for every decoder path) are judged per event."""
import json
import os
import random
import re
import subprocess
import time
from concurrent.futures import ThreadPoolExecutor
from pathlib import Path

import vf

AVH19 = vf.HARNESS / "target" / "release" / "avh_c19"
ACTIONS = ["Call", "Begin", "Finish", "Observe", "Return", "Done"]
BROKEN = {"MC_Settings_broken_writeonce.cfg": "WriteOnce",
          "MC_Settings_broken_agreement.cfg": "Agreement",
          "MC_Settings_broken_exactlyonesetsucceeds.cfg": "ExactlyOneSetSucceeds",
          "MC_Settings_broken_linearizable.cfg": "Linearizable"}

RULE = ("Model: TLC enumerates every interleaving of 3 threads x <= 2 calls (set / use) on 2-3 once-cells (MC_Settings_*.cfg),"
        " exhaustively within those bounds. Implementation: each trial is one fresh process running one program"
        " (sampled TLC programs + seeded random programs with 2-8 threads, 1-4 calls each, 1-7 cells, optional pre-call by the"
        " main thread, epilogue reading every addressed cell); real schedules are sampled, not enumerated. A trial is"
        " non-trivial if at least two calls of different threads were in flight before the first call on the same cell"
        " returned (they raced for the initialisation); distinct = distinct (program, return values) among those."
        " Limit probes: for each limit in {0, 1, 4096, 1 MiB, vsz*msz, 512 MiB (default), usize::MAX} and each decoder path"
        " (bytes, string, fixed, serde string/bytes/fixed, array, map, serde array/map block counts, container block, deflate,"
        " snappy, zstandard, bzip2, xz) a declared"
        " length at limit-1, limit, limit+1.")


def avh19(args, timeout=3000):
    p = subprocess.run([str(AVH19)] + [str(a) for a in args], stdout=subprocess.PIPE, stderr=subprocess.PIPE, text=True,
                       timeout=timeout)
    if p.returncode != 0:
        raise vf.ToolError(f"avh_c19 {args[0]} exited {p.returncode}: {p.stderr[-2000:]}")
    return p


# ------------------------------------------------------------------------------------------------
# step 1: model checking
# ------------------------------------------------------------------------------------------------
def tail(out):
    return "\n".join(l for l in out.splitlines() if not l.startswith(("Semantic", "Parsing", "Linting", '"SCN')))[-2500:]


def model_check(work, rep, tier):
    # mq/hq: thread 3 only uses; hc (same shape as mv) and hn (3 cells, all threads set and use, ~10^7 states,
    # 4 min on 4 idle cores) only on request
    models = ["mq"] if tier == "quick" else ["mv", "nn", "hq"] + (["hc", "hn"] if os.environ.get("VERIF_DEEP") else [])
    scns = set()
    for m in models:
        r = vf.tlc_mc(work, "MC_Settings.tla", f"MC_Settings_{m}.cfg", workers=4, timeout=1500, meta=f"md-{m}")
        if not r.ok:
            raise vf.ToolError(f"MC_Settings_{m}: the specification contradicts its own properties: {r.violated}\n{tail(r.out)}")
        rep.add_states(r.distinct, r.generated)
        got = set(r.tagged("SCN"))
        if not got:
            raise vf.ToolError(f"MC_Settings_{m} emitted no scenarios (vacuous run)")
        scns |= got
        vf.log(f"MC_Settings_{m}: {r.distinct} distinct states, {len(got)} programs, {r.wall:.0f}s")

    return sorted(scns)


def tlaps(work, rep):
    """Unbounded part: spec/SettingsProofs.tla (TLAPS) proves WriteOnce for ANY set of threads / cells / offered calls
    and any bound on the number of calls; every obligation must be discharged."""
    import subprocess
    import shutil
    exe = shutil.which("tlapm")
    if not exe:
        raise vf.ToolError("tlapm not found on PATH")
    pdir = Path(work) / "tlaps"
    pdir.mkdir(exist_ok=True)
    for f in ("Settings.tla", "SettingsProofs.tla"):
        shutil.copy(Path(work) / "spec" / f, pdir / f)
    p = subprocess.run(["timeout", "-k", "10", "900", exe, "--threads", "4", "SettingsProofs.tla"], cwd=pdir,
                       stdout=subprocess.PIPE, stderr=subprocess.STDOUT, text=True)
    import re
    m = re.search(r"All (\d+) obligations? proved", p.stdout)
    if not m:
        raise vf.ToolError("TLAPS did not discharge every obligation of SettingsProofs.tla:\n" + p.stdout[-1500:])
    rep.cov["tlaps_obligations_proved"] = int(m.group(1))
    rep.cov["tlaps_theorems"] = ["DomInv: Spec => []DomOK", "WriteOnceThm: Spec => WriteOnce (any Threads, Cells, MaxOps, OpsOf)",
                                  "RunnerOwnsThm: Spec => RunnerOwnsCell (a running cell is only ended by its runner, by publishing)"]
    vf.log(f"TLAPS: all {m.group(1)} obligations of SettingsProofs.tla proved")


def small_jobs(work, tier):
    """coverage instance, (thorough: liveness instance) and the three broken configurations; one worker each"""
    jobs = [("MC_Settings_cov.cfg", ["-coverage", "1"])] + [(c, []) for c in BROKEN]
    if tier == "thorough":
        jobs.append(("MC_Settings_live.cfg", []))

    def small(job):
        cfg, extra = job
        return cfg, vf.tlc(work, "MC_Settings.tla", cfg, workers=1, timeout=900, extra=extra, meta="md-" + cfg[:-4], xmx="2g")

    ex = ThreadPoolExecutor(max_workers=3)
    return ex, [ex.submit(small, j) for j in jobs]


def small_results(rep, ex, futures):
    results = dict(f.result() for f in futures)
    ex.shutdown()
    for cfg in ("MC_Settings_cov.cfg", "MC_Settings_live.cfg"):
        if cfg in results:
            r = results[cfg]
            if not r.ok:
                raise vf.ToolError(f"{cfg} failed: {r.violated}\n{tail(r.out)}")
            rep.add_states(r.distinct, r.generated)
    r = results["MC_Settings_cov.cfg"]
    taken = {}
    for mm in re.finditer(r"^<(\w+) line \d+, col \d+ to line \d+, col \d+ of module Settings>: (\d+):(\d+)", r.out, re.M):
        taken[mm.group(1)] = max(taken.get(mm.group(1), 0), int(mm.group(3)))
    never = [a for a in ACTIONS if taken.get(a, 0) == 0]
    if never:
        raise vf.ToolError(f"vacuity: actions never taken in MC_Settings_cov: {never}")
    rep.cov["actions_taken"] = {a: taken[a] for a in ACTIONS}
    found = {}
    for cfg, propname in BROKEN.items():
        r = results[cfg]
        names = {x for pair in r.violated for x in pair if x}
        if re.search(r"Action property line .* of module AtomicSettings is violated", r.out):
            names.add("Linearizable")        # a step of SpecBroken that is no step of the atomic contract
        if propname not in names:
            raise vf.ToolError(f"vacuity: TLC did not find the {propname} counterexample for check-then-set ({cfg}):\n{tail(r.out)}")
        rep.add_states(r.distinct, r.generated)
        found[propname] = True
    rep.cov["check_then_set_counterexamples_found"] = sorted(found)
    rep.cov["liveness_checked"] = "MC_Settings_live.cfg" in results
    vf.log("coverage instance + check-then-set counterexamples: " + ", ".join(f"{c[12:-4]} {results[c].wall:.0f}s" for c in results))


# ------------------------------------------------------------------------------------------------
# step 3: judging
# ------------------------------------------------------------------------------------------------
def run_trace(work, lines, tag):
    tdir = Path(work) / "traces"
    tdir.mkdir(exist_ok=True)
    f = tdir / f"{tag}.ndjson"
    f.write_text("\n".join(lines) + "\n")
    r = vf.tlc(work, "Trace_Settings.tla", "Trace_Settings.cfg", workers=1, timeout=1200, env={"TRACE": str(f)}, xmx="3g",
               deque=True, meta=f"md-{tag}")
    consumed = [s for s in r.printed if s.startswith("CONSUMED ")]
    frontier = [s for s in r.printed if s.startswith("FRONTIER ")]
    wo = any("TraceWriteOnce" in x for pair in r.violated for x in pair if x)
    if not consumed and not frontier and not wo:
        raise vf.ToolError(f"trace spec failed on {f}:\n{tail(r.out)}")
    return r, (None if consumed else (int(frontier[0].split()[1]) if frontier else -1)), wo


def split_trials(lines):
    """-> list of (trial id, [lines incl. reset])"""
    trials = []
    for l in lines:
        if l.startswith('{"ev":"reset"') or '"ev":"reset"' in l[:40]:
            trials.append((json.loads(l)["id"], [l]))
        else:
            trials[-1][1].append(l)
    return trials


def judge_chunk(work, idx, chunk):
    """chunk: list of (trial id, lines).  Every trial must be accepted; a rejected one is cut out and the rest re-judged."""
    out = []
    st = tr = 0
    rest = chunk
    guard = 0
    while rest:
        guard += 1
        if guard > 6:
            # enough rejected trials to report; the remainder of this chunk is left unjudged (counted)
            out.append({"id": rest[0][0], "fail": [], "known": [], "drift": [f"unjudged-after-rejections:{len(rest)}"]})
            break
        flat = [l for _, ls in rest for l in ls]
        r, frontier, wo = run_trace(work, flat, f"tr{idx:03d}-{guard}")
        st += r.distinct
        tr += r.generated
        if frontier is None and not wo:
            break
        if wo:
            # cannot happen with the module's own actions
            out.append({"id": rest[0][0], "fail": ["C19:write-once-violated-on-trace"], "known": [], "drift": []})
            rest = rest[1:]
            continue
        pos = 0
        for k, (tid, ls) in enumerate(rest):          # which trial holds line `frontier` (1-based)?
            if frontier <= pos + len(ls):
                stuck = json.loads(ls[frontier - pos - 1])
                clause = "C19:call-did-not-return" if stuck.get("ev") == "crash" else "C19:no-linearization"
                out.append({"id": tid, "fail": [clause], "known": [], "drift": [], "stuck_at": stuck})
                rest = rest[k + 1:]
                break
            pos += len(ls)
        else:
            raise vf.ToolError(f"frontier {frontier} outside the chunk")
    return "trial", out, st, tr


def judge_events(work, lines, tag):
    r, frontier, _ = run_trace(work, lines, tag)
    if frontier is not None:
        raise vf.ToolError(f"per-event judging did not consume {tag} (stuck at line {frontier})")
    seen, out = set(), []
    for s in r.tagged("VERDICT"):
        if s not in seen:
            seen.add(s)
            v = json.loads(s)
            v.setdefault("known", [])
            out.append(v)
    return "event", out, r.distinct, r.generated


def selftest_trial(work, some_trials):
    """alter the first recorded return value of the second trial: exactly that trial must be rejected at that line"""
    ts = [(tid, list(ls)) for tid, ls in some_trials]
    victim = ts[min(1, len(ts) - 1)]
    k = next(i for i, l in enumerate(victim[1]) if '"ev":"ret"' in l)
    e = json.loads(victim[1][k])
    e["val"] += 7
    victim[1][k] = json.dumps(e)
    flat = [l for _, ls in ts for l in ls]
    r, frontier, _ = run_trace(work, flat, "selftest-trial")
    want = sum(len(ls) for _, ls in ts[:min(1, len(ts) - 1)]) + k + 1
    return frontier == want, r.distinct, r.generated


def selftest_event(work, limit_lines):
    """an accepted probe at the limit re-labelled as rejected, and a rejected one as accepted, must both be flagged"""
    probes = [json.loads(l) for l in limit_lines if '"ev":"probe"' in l]
    num = lambda le: int.from_bytes(bytes(le), "little")
    plain = [p for p in probes if p["mode"] == "setfirst" and p["isz"] == 1 and p["supplied"]]
    a = dict(next(p for p in plain if num(p["len"]) < num(p["asked"])), id=1, out="limit")
    b = dict(next(p for p in plain if num(p["len"]) > num(p["asked"])), id=2, out="ok")
    c = dict(json.loads(next(l for l in limit_lines if '"ev":"setlimit"' in l)), id=3)
    c["reported"] = [(c["reported"][0] + 1) % 256] + c["reported"][1:]
    r, frontier, _ = run_trace(work, [json.dumps(x) for x in (a, b, c)], "selftest-event")
    got = {}
    for s in r.tagged("VERDICT"):
        v = json.loads(s)
        got[v["id"]] = set(v["fail"])
    ok = (frontier is None and got.get(1) == {"C19:within-limit-rejected"} and got.get(2) == {"C19:over-limit-accepted"}
          and got.get(3) == {"C19:setter-reports-wrong-value"})
    return ok, r.distinct, r.generated


# ------------------------------------------------------------------------------------------------
# statistics of what the trials exercised (never a verdict)
# ------------------------------------------------------------------------------------------------
def racing(trial_lines):
    """per cell: the calls in flight before the first call on that cell returned"""
    open_, calls = {}, []
    for l in trial_lines:
        e = json.loads(l)
        if e["ev"] == "call":
            open_[e["t"]] = e
        elif e["ev"] == "ret" and e["t"] in open_:
            c = open_.pop(e["t"])
            calls.append((c["t"], c["op"], c["c"], c["seq"], e["seq"], e["val"]))
    res = {}
    for cell in {c[2] for c in calls}:
        cs = [c for c in calls if c[2] == cell]
        r0 = min(c[4] for c in cs)
        res[cell] = [c for c in cs if c[3] < r0]
    return res, calls


# ------------------------------------------------------------------------------------------------
TOUCH_BASE = 100000      # ids of touch events are shifted so that they do not collide with limit events


def run(prop, tier, seed, replay=None):
    rep = vf.Report(prop, tier, seed)
    vf.build_harness()
    work = vf.fresh_workdir(f"{prop}-{tier}")
    rng = random.Random(seed)
    replay_kind = None
    small = None
    if replay:
        payload = json.loads(Path(replay).read_text())["payload"]
        replay_kind = payload["kind"]
        progs = [dict(payload["program"]) for _ in range(25)] if replay_kind == "trial" else []
        rep.add_states(1, 1)
    else:
        scns = model_check(work, rep, tier)
        tlaps(work, rep)
        small = small_jobs(work, tier)          # runs while the harness executes the trials
        n_tlc, n_rand = (60, 140) if tier == "quick" else (500, 2000)
        picked = rng.sample(scns, min(n_tlc, len(scns)))
        progs = []
        for s in picked:
            p = json.loads(s)
            progs.append({"id": 0, "pre": [], "threads": p["threads"], "sync": rng.random() < 0.5, "src": "tlc"})
        rfile = work / "random.progs.ndjson"
        avh19(["gen", "--seed", seed, "--count", n_rand, "--max-threads", 8, "--max-ops", 4, "--out", rfile])
        for l in rfile.read_text().splitlines():
            if l.strip():
                p = json.loads(l)
                p["src"] = "random"
                progs.append(p)
        for p in progs:
            # TLC programs in which fewer than two threads call anything get a second thread using the same cell
            p["threads"] = [t for t in p["threads"] if t]
            if len(p["threads"]) < 2:
                c = p["threads"][0][0]["c"]
                p["threads"].append([{"op": "use", "c": c, "arg": 0 if c == "humanReadable" else 1}])
    for i, p in enumerate(progs):
        p["id"] = i

    trials, lines, limit_lines, touch_lines = [], [], [], []
    if progs:
        pfile = work / "progs.ndjson"
        pfile.write_text("\n".join(json.dumps(p) for p in progs) + "\n")
        efile = work / "trials.ndjson"
        avh19(["trials", "--progs", pfile, "--out", efile, "--jobs", 1 if tier == "quick" else 3])
        lines = [l for l in efile.read_text().splitlines() if l.strip()]
        trials = split_trials(lines)
        if len(trials) != len(progs):
            raise vf.ToolError(f"{len(trials)} trials recorded for {len(progs)} programs")
        vf.log(f"{len(progs)} trial processes run, {len(lines)} events, t={time.time() - rep.t0:.0f}s")
    if not replay or replay_kind == "event":
        tfile = work / "touch.ndjson"
        avh19(["touch", "--out", tfile])
        for l in tfile.read_text().splitlines():
            if l.strip():
                j = json.loads(l)
                j["id"] += TOUCH_BASE
                touch_lines.append(json.dumps(j))
        lfile = work / "limits.ndjson"
        avh19(["limits", "--out", lfile] + (["--big"] if tier == "thorough" else []))
        limit_lines = [l for l in lfile.read_text().splitlines() if l.strip()]
    if small:
        small_results(rep, *small)

    # judge everything: trial chunks and the per-event file, 4 JVMs at a time
    per = max(1, -(-len(trials) // 3)) if tier == "quick" else 250
    jobs = [("chunk", i // per, trials[i:i + per]) for i in range(0, len(trials), per)]
    if touch_lines or limit_lines:
        jobs.append(("events", 0, touch_lines + limit_lines))

    # binding self-test: one recorded return value altered / one probe outcome altered must be rejected
    if trials and not replay:
        jobs.append(("selftest-trial", 0, trials[:3]))
    if limit_lines and not replay:
        jobs.append(("selftest-event", 0, limit_lines))

    def do(job):
        kind, idx, data = job
        if kind == "chunk":
            return judge_chunk(work, idx, data)
        if kind == "events":
            return judge_events(work, data, "events")
        if kind == "selftest-trial":
            return ("selftest-trial",) + selftest_trial(work, data)
        return ("selftest-event",) + selftest_event(work, data)

    trial_verdicts, event_verdicts, selftest_failed = [], [], []
    with ThreadPoolExecutor(max_workers=4) as ex:
        for kind, out, st, tr in ex.map(do, jobs):
            rep.add_states(st, tr)
            if kind.startswith("selftest"):
                rep.cov[kind.replace("-", "_") + "_rejected"] = out
                if not out:
                    selftest_failed.append(kind)
            else:
                (trial_verdicts if kind == "trial" else event_verdicts).extend(out)
    vf.log(f"judged: {len(trial_verdicts)} trials rejected, {len(event_verdicts)} events not clean, t={time.time() - rep.t0:.0f}s")

    if trials:
        rejected = {v["id"] for v in trial_verdicts}
        rep.cov["traces_validated_against_impl"] = len(trials) - len(rejected)
        contended = mixed = 0
        nontrivial = []
        for tid, ls in trials:
            r, calls = racing(ls[1:])
            races = [v for v in r.values() if len({c[0] for c in v}) >= 2]
            if races:
                contended += 1
                nontrivial.append({"p": progs[tid]["threads"], "pre": progs[tid].get("pre", []), "r": [c[5] for c in sorted(calls)]})
                if any({c[1] for c in v} == {"set", "use"} for v in races):
                    mixed += 1
        rep.cov["trials"] = len(trials)
        rep.cov["trial_events"] = len(lines)
        rep.cov["trials_with_racing_first_access"] = contended
        rep.cov["trials_with_setter_and_user_racing"] = mixed
        rep.cov["distinct_nontrivial"] = vf.distinct_hashes(nontrivial)
        if not replay and contended * 10 < len(trials):
            raise vf.ToolError(f"vacuity: only {contended} of {len(trials)} trials had calls racing for a cell's initialisation")
        for tid in ([0, len(trials) // 2, len(trials) - 1] if len(trials) > 2 else range(len(trials))):
            rep.sample({"program": progs[tid], "events": [json.loads(x) for x in trials[tid][1][1:13]]})
    if limit_lines:
        probes = [json.loads(l) for l in limit_lines if '"ev":"probe"' in l]
        if not replay and (len(probes) < 150 or len(touch_lines) < 30):
            raise vf.ToolError(f"vacuity: only {len(probes)} limit probes / {len(touch_lines)} touch events recorded")
        rep.cov["limit_probes"] = len(probes)
        rep.cov["limit_probe_kinds"] = sorted({p["kind"] for p in probes})
        rep.cov["limit_probes_by_outcome"] = {o: sum(1 for p in probes if p["out"] == o) for o in sorted({p["out"] for p in probes})}
        rep.cov["touch_events"] = len(touch_lines)
        rep.sample({"limit_probe": probes[len(probes) // 3]})

    rep.cov["evaluations"] = len(trials) + len(limit_lines) + len(touch_lines)
    rep.cov["rule"] = RULE
    rep.cov["exhaustive"] = False
    rep.assumptions += [
        "spec/Settings.tla (once-cells, first-set-wins, documented defaults, Accept(len) <=> len <= limit) is the oracle; its own consistency and the check-then-set counterexamples are model-checked on every run",
        "real thread schedules are sampled (fresh process per trial, barrier + spin barrier, 2-8 threads), not enumerated; each recorded schedule is checked for linearizability",
        "sequence numbers come from one AtomicU64 taken just before the call and just after the return, so the recorded interval contains the real one (sound: no false alarm; a violation confined to the stamping gap could be missed)",
        "validators/comparator are observed through the marker protocol of harness/src/bin/avh_c19.rs (custom object k says yes to marker k only); which cells a call initialises is re-measured on every run (touch events, judged against Touches)",
        "limits: acceptance at the limit is probed with real data up to 4 MiB; at 512 MiB (default) and above only the declaration is supplied (outcome limit-error vs any other outcome), a 512 MiB container block is read only in the thorough tier; usize::MAX accept side only (1 MiB real data, 512 MiB + 1 declared); container blocks only for limits >= 4096 (the file header itself declares longer lengths)",
        "collections: count > limit must be rejected and count * size_of(item) <= limit must be accepted (verdict layer); between the two the crate's documented byte accounting is expected (drift otherwise)",
    ]

    tv = {v["id"]: v for v in trial_verdicts}
    all_events = {json.loads(x)["id"]: json.loads(x) for x in touch_lines + limit_lines}

    def replay_trial(i):
        return {"kind": "trial", "program": progs[i], "events": [json.loads(x) for x in trials[i][1]],
                "stuck_at": tv[i].get("stuck_at")}

    def replay_event(i):
        return {"kind": "event", "event": all_events.get(i)}

    rep.classify(trial_verdicts, replay_trial)
    rep.classify(event_verdicts, replay_event)
    if selftest_failed and not rep.violations:
        raise vf.ToolError(f"binding self-test failed: an altered recording was accepted ({selftest_failed})")
    return rep.finish()
