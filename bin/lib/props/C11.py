"""C11: the schema parser is total and accepts exactly well-formed schemas.
MC_SchemaWF (seeds x mutation actions, predicted verdicts) -> avh_c11 (real parser + post-operations under
catch_unwind / watchdog / child process) -> Trace_SchemaWF (re-evaluates WellFormed on the tree scanned from the
text the parser saw and judges accept/reject, totality, post-operations)."""
import json
import os
import re
import subprocess
from concurrent.futures import ThreadPoolExecutor
from pathlib import Path
import vf

ACTIONS = ["DropKey", "Retype", "DupKey", "BadName", "ExtremeNumber", "NestUnion", "DupBranch", "DupField", "DupSymbol",
           "BadDefault", "Dangling", "DupFullName", "BadEnumDefault"]
RULE = ("TLC explores MC_SchemaWF: 46 seed schemas (incl. the specification's examples) x the 13 mutation actions "
        "(one step everywhere, two steps on the `Deep` seeds), one scenario per distinct JSON tree with WF's predicted verdict; "
        "plus seeded inputs from `avh_c11 gen` (raw bytes, arbitrary JSON, schema-shaped documents with small name pools, deep nestings) "
        "and the raw-string schema literals of avro_test_helper/src/data.rs and avro/tests/schema.rs. Every input is given to "
        "Schema::parse_str / parse / parse_reader on the real crate; Trace_SchemaWF re-evaluates WellFormed on the scanned tree. "
        "Non-trivial = the text is JSON and is not a bare primitive name; distinct = distinct input bytes.")
AVH11 = vf.AVH.parent / "avh_c11"


def avh11(args, timeout=3000):
    p = subprocess.run([str(AVH11)] + [str(a) for a in args], stdout=subprocess.PIPE, stderr=subprocess.PIPE, text=True, timeout=timeout)
    if p.returncode != 0:
        raise vf.ToolError(f"avh_c11 {args[0]} exited {p.returncode}: {p.stderr[-2000:]}")
    return p


def tlc_mc_main_stack(work, module, cfg, workers=4, timeout=1500):
    """Like vf.tlc_mc, but with -Xss on the java COMMAND LINE: JAVA_TOOL_OPTIONS is read after the launcher has
    sized the main thread, and TLC evaluates ASSUMEs, constant definitions, Init and the invariants of the initial
    states on the main thread (measured: flaky StackOverflowError in WF on seed 22 with -Xss only in JAVA_TOOL_OPTIONS)."""
    import time
    cmd = ["timeout", "-k", "10", str(timeout), "java", "-Xss1g", "-Xmx6g", "-XX:+UseParallelGC", "-cp", vf.TLA_CP, "tlc2.TLC",
           "-workers", str(workers), "-metadir", str(Path(work) / "md-mc"), "-cleanup", "-noGenerateSpecTE", "-config", cfg, module]
    env = dict(os.environ)
    env.pop("JAVA_TOOL_OPTIONS", None)
    t0 = time.time()
    p = subprocess.run(cmd, cwd=Path(work) / "spec", env=env, stdout=subprocess.PIPE, stderr=subprocess.STDOUT, text=True)
    r = vf.TlcResult(p.stdout, time.time() - t0)
    if p.returncode in (124, 137):
        raise vf.ToolError(f"TLC timed out after {timeout}s on {module}/{cfg}")
    if not r.ok and not r.violated:
        tail = "\n".join(l for l in r.out.splitlines() if not l.startswith(("Semantic", "Parsing", "Linting", '"SCN')))[-3000:]
        raise vf.ToolError(f"TLC failed on {module}/{cfg}:\n{tail}")
    return r


def literals():
    """raw-string literals of the repository's own schema tests (regression seeds)"""
    out = []
    for f in ("/repo/avro_test_helper/src/data.rs", "/repo/avro/tests/schema.rs"):
        try:
            src = Path(f).read_text()
        except OSError:
            continue
        for m in re.finditer(r'r#"(.*?)"#', src, re.S):
            t = m.group(1)
            if len(t) < 20000:
                out.append(json.dumps({"src": "lit", "text": t}))
    return sorted(set(out))


def run_harness(work, scns, parts=4):
    """split into `parts` files, run them concurrently, return events in scenario order"""
    n = len(scns)
    if n == 0:
        return []
    size = (n + parts - 1) // parts
    jobs = []
    for k in range(parts):
        chunk = scns[k * size:(k + 1) * size]
        if not chunk:
            continue
        sf, ef = work / f"part{k}.scn.ndjson", work / f"part{k}.ev.ndjson"
        sf.write_text("\n".join(chunk) + "\n")
        jobs.append((k, sf, ef, len(chunk)))

    def one(j):
        k, sf, ef, cnt = j
        avh11(["run", "--scn", sf, "--out", ef])
        lines = [l for l in ef.read_text().splitlines() if l.strip()]
        if len(lines) != cnt:
            raise vf.ToolError(f"harness recorded {len(lines)} events for {cnt} scenarios (part {k})")
        return k, lines

    events = []
    with ThreadPoolExecutor(max_workers=parts) as ex:
        for k, lines in sorted(ex.map(one, jobs)):
            base = k * size
            for i, l in enumerate(lines):
                e = json.loads(l)
                e["id"] = base + i
                events.append(json.dumps(e))
    return events


def selftest(work, events):
    """binding self-test: flipping a recorded outcome must make the trace spec reject the event"""
    flipped = []
    want = {"ok->err": None, "err->ok": None, "ok->panic": None}
    for l in events:
        e = json.loads(l)
        if e["src"] != "mc" or len(l) > 4000:
            continue
        outs = {v["out"] for v in e["parse"].values()}
        if e["pred"] == "ok" and outs == {"ok"} and want["ok->err"] is None:
            f = json.loads(l)
            for v in f["parse"].values():
                v["out"], v["kind"] = "err", "selftest"
            for p in f["post"]:
                p["out"] = "skip"
            want["ok->err"] = f
        elif e["pred"] == "ok" and outs == {"ok"} and want["ok->panic"] is None:
            f = json.loads(l)
            f["post"][1]["out"], f["post"][1]["kind"] = "panic", "selftest"
            want["ok->panic"] = f
        elif e["pred"] == "bad" and outs == {"err"} and want["err->ok"] is None:
            f = json.loads(l)
            for v in f["parse"].values():
                v["out"], v["kind"] = "ok", ""
            want["err->ok"] = f
    miss = [k for k, v in want.items() if v is None]
    if miss:
        raise vf.ToolError(f"self-test: no event suitable for {miss}")
    for i, k in enumerate(sorted(want)):
        want[k]["id"] = i
        flipped.append(json.dumps(want[k]))
    verdicts, _, _ = vf.judge_events(work, "Trace_SchemaWF.tla", "Trace_SchemaWF.cfg", flipped, chunk=10, jobs=1)
    rejected = {v["id"] for v in verdicts if any(c.startswith("C11:") for c in v.get("fail", []))}
    if rejected != {0, 1, 2}:
        raise vf.ToolError(f"self-test: flipped events not all rejected by Trace_SchemaWF (rejected {sorted(rejected)})")
    return len(flipped)


def run(prop, tier, seed, replay=None):
    rep = vf.Report(prop, tier, seed)
    import time
    t0 = time.time()

    def lap(what):
        vf.log(f"{what}: t+{time.time() - t0:.0f}s")
    vf.build_harness()
    work = vf.fresh_workdir(f"{prop}-{tier}")
    mc_states = 0
    if replay:
        payload = json.loads(Path(replay).read_text())["payload"]
        scns = [json.dumps(payload["scenario"])]
    else:
        cfg = "MC_SchemaWF_quick.cfg" if tier == "quick" else "MC_SchemaWF_thorough.cfg"
        r = tlc_mc_main_stack(work, "MC_SchemaWF.tla", cfg, workers=4, timeout=1500)
        sanity = [s for s in r.out.splitlines() if "SANITY" in s]
        if not r.ok or sanity:
            raise vf.ToolError(f"MC_SchemaWF model sanity failed: {r.violated} {sanity[:2]}")
        rep.add_states(r.distinct, r.generated)
        mc_states = r.distinct
        lap("model checked")
        mc = []
        for s in sorted(set(r.tagged("SCN"))):
            j = json.loads(s)
            j["src"] = "mc"
            mc.append(j)
        if not mc:
            raise vf.ToolError("MC_SchemaWF emitted no scenarios (vacuous run)")
        seen_actions = {a for j in mc for a in j["muts"]}
        missing = [a for a in ACTIONS if a not in seen_actions]
        if missing:
            raise vf.ToolError(f"mutation actions never taken: {missing}")
        preds = {j["pred"] for j in mc}
        if preds != {"ok", "bad", "grey"}:
            raise vf.ToolError(f"predicted verdict classes incomplete: {sorted(preds)}")
        scns = [json.dumps(j) for j in mc]
        gen = work / "gen.scn.ndjson"
        avh11(["gen", "--seed", seed, "--count", 1000 if tier == "quick" else 12000, "--out", gen])
        scns += [l for l in gen.read_text().splitlines() if l.strip()]
        scns += literals()
        rep.cov["exhaustive"] = False
    (work / "all.scn.ndjson").write_text("\n".join(scns) + "\n")
    events = run_harness(work, scns, parts=1 if replay else 4)
    if len(events) != len(scns):
        raise vf.ToolError(f"harness recorded {len(events)} events for {len(scns)} scenarios")
    lap("executed on the crate")
    verdicts, st, tr = vf.judge_events(work, "Trace_SchemaWF.tla", "Trace_SchemaWF.cfg", events, chunk=1200, jobs=4)
    rep.add_states(st, tr)
    lap("judged")
    evs = [json.loads(l) for l in events]
    rep.cov["traces_validated_against_impl"] = len(events)
    rep.cov["evaluations"] = len(events)
    parsed = [json.loads(s) for s in scns]
    keyed = set()
    for p, e in zip(parsed, evs):
        if e["json"] and e["tree"]["j"] != "str":
            keyed.add(json.dumps(p.get("tree", p.get("text", p.get("bytes"))), sort_keys=True))
    rep.cov["distinct_nontrivial"] = len(keyed)
    rep.cov["rule"] = RULE
    acc = sum(1 for e in evs if any(v["out"] == "ok" for v in e["parse"].values()))
    rej = sum(1 for e in evs if any(v["out"] == "err" for v in e["parse"].values()))
    by_src = {}
    for e in evs:
        by_src[e["src"]] = by_src.get(e["src"], 0) + 1
    grey = {}
    for v in verdicts:
        for g in v.get("grey", []):
            grey[g] = grey.get(g, 0) + 1
    rep.cov.update({"accepted_by_parser": acc, "rejected_by_parser": rej, "inputs_by_source": by_src,
                    "json_judged_by_WellFormed": sum(1 for e in evs if e["json"]),
                    "totality_only": sum(1 for e in evs if not e["json"]),
                    "grey_zone_events": sum(1 for v in verdicts if v.get("grey")), "grey_zones": grey,
                    "mc_distinct_trees": mc_states})
    if not replay:
        if acc == 0 or rej == 0:
            raise vf.ToolError("vacuous run: parser accepted or rejected nothing")
        pv = {}
        for p in parsed:
            if p.get("src") == "mc":
                pv[p["pred"]] = pv.get(p["pred"], 0) + 1
        rep.cov["mc_predicted"] = pv
        rep.cov["selftest_flipped_events_rejected"] = selftest(work, events)
        for i in (0, len(parsed) // 7, len(parsed) // 3, len(parsed) - 300, len(parsed) - 1):
            p = parsed[max(0, min(i, len(parsed) - 1))]
            e = evs[max(0, min(i, len(parsed) - 1))]
            rep.sample({"source": p.get("src"), "mutations": p.get("muts", []), "predicted": p.get("pred", "none"),
                        "text": subprocess_text(p)[:300], "parse_str": e["parse"]["parse_str"]["out"]})
    rep.assumptions += [
        "spec/SchemaWF.tla (transcribed from the Avro specification, DESIGN Appendix B.3, literal examples ASSUMEd in MC_SchemaWF) is the oracle for well-formedness",
        "whether a text is JSON is not modelled in TLA+ (strings are atomic): the harness' duplicate-preserving scanner (harness/src/jsontree.rs) turns text into the tree; texts it cannot scan, and trees above 4000 nodes / depth 60, are judged for totality (no panic/hang/abort) only",
        "grey zones (counted in coverage.grey_zones) accept either outcome: duplicate JSON keys, sizes above 2^31-1, empty enum/union, invalid `order`, wrong JSON kind of doc/aliases/namespace, references to aliases, leading-dot names, union-field default matching a later branch, defaults under a logicalType",
        "hang = no report from the worker thread within 10 s; unbounded nesting depth is a non-goal (nestings up to depth 100 are exercised)",
    ]

    def replay_of(i):
        return {"scenario": parsed[i], "event": evs[i]}

    rep.classify(verdicts, replay_of)
    return rep.finish()


def subprocess_text(p):
    if "text" in p:
        return p["text"]
    if "tree" in p:
        return render(p["tree"])
    return "bytes:" + json.dumps(p.get("bytes"))


def render(t):
    j = t["j"]
    if j == "obj":
        return "{" + ",".join(json.dumps(k) + ":" + render(v) for k, v in t["kv"]) + "}"
    if j == "arr":
        return "[" + ",".join(render(x) for x in t["items"]) + "]"
    if j == "str":
        return json.dumps(bytes(t["u"]).decode("utf-8", "replace"))
    if j == "int":
        return str(t["n"])
    if j == "num":
        return t["text"]
    if j == "bool":
        return "true" if t["bv"] else "false"
    return "null"
