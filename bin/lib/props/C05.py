import c_decode


def run(prop, tier, seed, replay=None):
    return c_decode.run(prop, tier, seed, replay)
