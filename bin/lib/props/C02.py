import c_datum


def run(prop, tier, seed, replay=None):
    return c_datum.run(prop, tier, seed, replay)
