"""C03: container files return exactly the appended values for any writer history."""
import json
import subprocess
from pathlib import Path
import vf

RULE = ("TLC model-checks ContainerWriter (all operation histories up to MaxOps over append ok/rejected/encode-fails, flush,"
        " extend, add_user_metadata, reset, into_inner, drop, append_to; block sizes {0,5,12,1000}) against Prefix, PendingAccounted,"
        " ClosedReadBack, HeaderOnce, MetaFrozen, OneMarker, NoTrace..., and prints every history of exactly N operations; each is"
        " replayed on the real Writer (append variants and codecs rotate) together with seeded random histories up to 30-40"
        " operations; Trace_ContainerWriter.tla replays every recorded history on the model and judges each step."
        " A part of the histories is replayed a second time with values that are zero bytes wide (schema null). Non-trivial = history contains a successful append; distinct = distinct (block size, operation list).")


def run(prop, tier, seed, replay=None):
    rep = vf.Report(prop, tier, seed)
    vf.build_harness()
    work = vf.fresh_workdir(f"{prop}-{tier}")
    avh = vf.AVH.parent / "avh_c03"
    if replay:
        scns = [json.dumps(json.loads(Path(replay).read_text())["payload"]["scenario"])]
    else:
        inv_cfg = "MC_ContainerWriter_inv_quick.cfg" if tier == "quick" else "MC_ContainerWriter_inv.cfg"
        r = vf.tlc_mc(work, "MC_ContainerWriter.tla", inv_cfg, workers=8, timeout=2400, extra=["-coverage", "1"])
        if not r.ok:
            raise vf.ToolError(f"ContainerWriter design property violated: {r.violated}")
        rep.add_states(r.distinct, r.generated)
        # vacuity: every action of the model must have been taken
        import re
        never = [m for m in re.findall(r"<(\w+) line \d+, col \d+ to line \d+, col \d+ of module ContainerWriter>: 0:0", r.out)]
        if never:
            raise vf.ToolError(f"model actions never taken: {never}")
        r2 = vf.tlc_mc(work, "MC_ContainerWriter.tla", "MC_ContainerWriter_scn3.cfg", workers=8, timeout=2400)
        rep.add_states(r2.distinct, r2.generated)
        scns = sorted(set(r2.tagged("SCN")))
        if not scns:
            raise vf.ToolError("MC_ContainerWriter emitted no scenarios")
        if tier == "quick":
            scns = scns[seed % 4::4]          # a quarter of the length-3 histories, rotating with the seed
        else:
            r3 = vf.tlc_mc(work, "MC_ContainerWriter.tla", "MC_ContainerWriter_scn4.cfg", workers=8, timeout=2400)
            rep.add_states(r3.distinct, r3.generated)
            scns += sorted(set(r3.tagged("SCN")))[seed % 12::12]   # all of length 3, a twelfth of length 4
        rep.cov["exhaustive"] = False
        gen = work / "rand.scn"
        n, maxlen = (120, 30) if tier == "quick" else (1000, 40)
        p = subprocess.run([str(avh), "gen", "--seed", str(seed), "--count", str(n), "--maxlen", str(maxlen), "--out", str(gen)],
                           stdout=subprocess.PIPE, stderr=subprocess.PIPE, text=True)
        if p.returncode != 0:
            raise vf.ToolError("avh_c03 gen failed: " + p.stderr[-400:])
        scns += [l for l in gen.read_text().splitlines() if l.strip()]
    if not replay:
        # the same histories with values that are ZERO bytes wide (schema "null", id "z"): "something is pending" must be
        # decided by the value count, not by the byte length of the buffer
        def zeroed(line):
            j = json.loads(line)
            def z(x):
                if isinstance(x, list):
                    return [z(y) for y in x]
                return "z" if x in ("a", "b", "c") else x
            j["ops"] = [[op[0]] + [z(a) for a in op[1:]] if op and op[0] in ("append", "extend", "extend-bad") else op for op in j["ops"]]
            j["zero"] = True
            return json.dumps(j)
        zsrc = [l for l in scns if '"append"' in l or '"extend"' in l]
        step = 5 if tier == "quick" else 2
        scns += [zeroed(l) for l in zsrc[seed % step::step]]
        rep.cov["zero_width_histories"] = len(zsrc[seed % step::step])
    scn_file = work / "scn.ndjson"
    scn_file.write_text("\n".join(scns) + "\n")
    ev_file = work / "events.ndjson"
    p = subprocess.run([str(avh), "replay", "--scn", str(scn_file), "--out", str(ev_file)], stdout=subprocess.PIPE, stderr=subprocess.PIPE, text=True, timeout=3000)
    if p.returncode != 0:
        raise vf.ToolError("avh_c03 replay failed: " + p.stderr[-400:])
    groups, cur = [], []
    for line in ev_file.read_text().splitlines():
        if not line.strip():
            continue
        if '"ev":"begin"' in line and cur:
            groups.append(cur)
            cur = []
        cur.append(line)
    if cur:
        groups.append(cur)
    if len(groups) != len(scns):
        raise vf.ToolError(f"{len(groups)} recorded behaviours for {len(scns)} scenarios")
    verdicts, st, tr = vf.judge_groups(work, "Trace_ContainerWriter.tla", "Trace_ContainerWriter.cfg", groups, per_chunk=400)
    rep.add_states(st, tr)
    parsed = [json.loads(s) for s in scns]
    rep.cov["traces_validated_against_impl"] = len(groups)
    rep.cov["evaluations"] = sum(len(g) for g in groups)
    rep.cov["distinct_nontrivial"] = vf.distinct_hashes(
        [{"b": p["block_size"], "o": p["ops"]} for p in parsed if any(o[0] in ("append", "extend") for o in p["ops"])])
    rep.cov["rule"] = RULE
    for p_ in parsed[:2] + parsed[len(parsed) // 2: len(parsed) // 2 + 1] + parsed[-2:]:
        rep.sample({"block_size": p_["block_size"], "ops": p_["ops"]})
    rep.assumptions += ["the harness' container splitter (harness/src/container.rs) observes intermediate sink states; the final read-back uses the crate's Reader",
                        "the six codecs rotate over the histories; append variants (append_value, append_value_ref, unvalidated_append_value, append_ser) rotate over the steps"]
    rep.classify(verdicts, lambda i: {"scenario": parsed[i], "events": [json.loads(x) for x in groups[i]]})
    return rep.finish()
