import c_derive


def run(prop, tier, seed, replay=None):
    return c_derive.run(prop, tier, seed, replay)
