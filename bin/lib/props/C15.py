import c_codec


def run(prop, tier, seed, replay=None):
    return c_codec.run(prop, tier, seed, replay)
