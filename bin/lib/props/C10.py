import c_schemajson


def run(prop, tier, seed, replay=None):
    return c_schemajson.run_c10(prop, tier, seed, replay)
