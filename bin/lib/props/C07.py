"""C07: values accepted by validation are written readably; rejected ones write nothing."""
import json
from pathlib import Path
import vf

RULE = ("TLC (MC_Validate) enumerates schemas of the bounded universe x conforming values x every single perturbation"
        " (40 kinds: lenient forms such as UnwrapUnion, EnumAsString, IntForLong, FloatForDouble, MapForRecord, BytesForFixed/Decimal,"
        " DropField, ReorderFields and near-misses such as WrongFixedSize, UnknownSymbol, ExtraField, NoMatchingBranch) at the root or"
        " nested <= 2 levels; each is run through Value::validate and the datum, container and single-object validating writers;"
        " Trace_Validate.tla judges. Non-trivial = kind is not Canonical; distinct = distinct (schema, value) hashes.")


def run(prop, tier, seed, replay=None):
    rep = vf.Report(prop, tier, seed)
    vf.build_harness()
    work = vf.fresh_workdir(f"{prop}-{tier}")
    if replay:
        scns = [json.dumps(json.loads(Path(replay).read_text())["payload"]["scenario"])]
    else:
        r = vf.tlc_mc(work, "MC_Validate.tla", f"MC_Validate_{tier}.cfg", workers=8, timeout=1500)
        if not r.ok:
            raise vf.ToolError(f"MC_Validate invariant violated: {r.violated}")
        rep.add_states(r.distinct, r.generated)
        scns = sorted(set(r.tagged("SCN")))
        if not scns:
            raise vf.ToolError("MC_Validate emitted no scenarios")
        rep.cov["exhaustive"] = True
    scn_file = work / "scn.ndjson"
    scn_file.write_text("\n".join(scns) + "\n")
    ev_file = work / "events.ndjson"
    vf.avh(["validate-run", "--scn", scn_file, "--out", ev_file])
    events = [l for l in ev_file.read_text().splitlines() if l.strip()]
    if len(events) != len(scns):
        raise vf.ToolError("harness recorded a different number of events than scenarios")
    verdicts, st, tr = vf.judge_events(work, "Trace_Validate.tla", "Trace_Validate.cfg", events, chunk=300)
    rep.add_states(st, tr)
    parsed = [json.loads(s) for s in scns]
    evs = [json.loads(e) for e in events]
    with open(work / "verdicts.ndjson", "w") as f:
        for v in verdicts:
            f.write(json.dumps({"verdict": v, "event": evs[v["id"]]}) + "\n")
    rep.cov["traces_validated_against_impl"] = len(events)
    rep.cov["evaluations"] = len(events)
    rep.cov["distinct_nontrivial"] = vf.distinct_hashes([{"s": p["s"], "v": p["v"]} for p in parsed if p["kind"] != "Canonical"])
    rep.cov["rule"] = RULE
    kinds, acc = {}, {"accepted": 0, "rejected": 0}
    for e in evs:
        kinds[e["kind"]] = kinds.get(e["kind"], 0) + 1
        if e.get("parse_ok"):
            acc["accepted" if e["accepted"] else "rejected"] += 1
    rep.cov["perturbation_kinds"] = kinds
    rep.cov["validation_verdicts"] = acc
    if not replay and (acc["accepted"] == 0 or acc["rejected"] == 0):
        raise vf.ToolError("vacuous run: validation accepted or rejected nothing")
    for p in parsed[:2] + parsed[len(parsed) // 2: len(parsed) // 2 + 2] + parsed[-2:]:
        rep.sample({"schema": p["s"], "value": p["v"], "kind": p["kind"]})
    rep.assumptions += ["what validation accepts is observed, not prescribed; Denotes (spec/Validate.tla) fixes what an accepted value means",
                        "container files are read back with the crate's own Reader here (the independent file parser is C04's)"]
    rep.classify(verdicts, lambda i: {"scenario": parsed[i], "event": evs[i]})
    return rep.finish()
