"""C13: writers never lose data silently on short writes or sink errors."""
import json
import subprocess
from pathlib import Path
import vf

RULE = ("Sink.tla: the Write contract as an adversary against a writer made of write_all / single-write sites; TLC proves NoSilentLoss"
        " for all-write_all writers and must find the counterexample for a writer with one single-write site (vacuity guard)."
        " Real runs: 9 writer scenarios (datum writer over a record touching every encoder arm, unvalidated, serde direct and buffered"
        " blocks, generic and typed single-object writers, container writer with header/blocks/markers/flush) x per-call acceptance"
        " policies (everything, 1, 3, pseudo-random <= 7 [+2, 7, 64, more random in thorough]) x a fault of each kind (Interrupted, Ok(0),"
        " other error, failing flush) at every sink call index (thinned to ~40 indices per policy in quick); each run is one event judged"
        " by Trace_Sink.tla. Non-trivial = a fault was injected or the policy is partial; distinct = distinct (scenario, policy, fault, index).")


def run(prop, tier, seed, replay=None):
    rep = vf.Report(prop, tier, seed)
    vf.build_harness()
    work = vf.fresh_workdir(f"{prop}-{tier}")
    r = vf.tlc_mc(work, "MC_Sink.tla", "MC_Sink_wa.cfg", workers=4, timeout=600, extra=["-coverage", "1"])
    if not r.ok:
        raise vf.ToolError(f"Sink model: NoSilentLoss violated for an all-write_all writer: {r.violated}")
    rep.add_states(r.distinct, r.generated)
    r2 = vf.tlc_mc(work, "MC_Sink.tla", "MC_Sink_w1.cfg", workers=4, timeout=600)
    if r2.ok:
        raise vf.ToolError("Sink model: the single-write counterexample was not found (invariant is vacuous)")
    rep.add_states(r2.distinct, r2.generated)
    ev_file = work / "events.ndjson"
    cmd = [str(vf.AVH.parent / "avh_c13"), "run", "--out", str(ev_file), "--tier", tier, "--seed", str(seed)]
    if replay:
        payload = json.loads(Path(replay).read_text())["payload"]
        cmd += ["--scen", payload["event"]["scen"]]
    p = subprocess.run(cmd, stdout=subprocess.PIPE, stderr=subprocess.PIPE, text=True, timeout=3000)
    if p.returncode != 0:
        raise vf.ToolError("avh_c13 run failed: " + p.stderr[-400:])
    events = [l for l in ev_file.read_text().splitlines() if l.strip()]
    verdicts, st, tr = vf.judge_events(work, "Trace_Sink.tla", "Trace_Sink.cfg", events, chunk=250)
    rep.add_states(st, tr)
    evs = [json.loads(e) for e in events]
    rep.cov["traces_validated_against_impl"] = len(evs)
    rep.cov["evaluations"] = len(evs)
    rep.cov["distinct_nontrivial"] = len({(e["scen"], e["k"], e["random"], e["fault"], e["fault_at"]) for e in evs if e["fault"] != "None" or e["k"] != 0})
    rep.cov["rule"] = RULE
    rep.cov["exhaustive"] = tier == "thorough"
    rep.cov["sink_calls"] = sum(e["ncalls"] for e in evs)
    res = {}
    for e in evs:
        key = f'{e["fault"]}:{e["result"]}'
        res[key] = res.get(key, 0) + 1
    rep.cov["results_by_fault"] = res
    for e in evs[:1] + evs[len(evs) // 2: len(evs) // 2 + 2]:
        rep.sample({"scenario": e["scen"], "accept_at_most": e["k"], "fault": e["fault"], "fault_at": e["fault_at"],
                    "result": e["result"], "calls": e["calls"][:6], "delivered": len(e["delivered"]), "reference": len(e["reference"])})
    rep.assumptions += ["container scenarios with a codec or user metadata are excluded here: their header map order differs between runs, so bytes are not comparable with a reference run",
                        "the sink is a harness instrument obeying std::io::Write; which call sites retry is coverage-layer (drift), not verdict"]
    rep.classify(verdicts, lambda i: {"event": {k: evs[i][k] for k in ("scen", "k", "random", "fault", "fault_at", "result", "returned", "err")}})
    return rep.finish()
