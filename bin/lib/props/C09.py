import c_resolve


def run(prop, tier, seed, replay=None):
    return c_resolve.run_c09(prop, tier, seed, replay)
