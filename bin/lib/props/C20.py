"""C20: multi-schema parsing is independent of input order and deterministic.

1. TLC model-checks spec/MC_MultiParse.tla: the intended design satisfies Confluent / MatchesDeclarative /
   InputOrderPreserved / ResultIsMeaning over every pick order of every input set of the family; the model that
   is faithful to the pinned implementation MUST violate them (vacuity guard: TLC has to find the design-level
   counterexample); the faithful run prints every scenario with its set of reachable outcomes.
2. harness avh_c20 executes every scenario (+ seeded random ones) on the real crate: all permutations x R runs.
3. spec/Trace_MultiParse.tla judges every recorded input set."""
import json
import subprocess
from pathlib import Path

import vf

AVH_C20 = vf.HARNESS / "target" / "release" / "avh_c20"
IDS = ("C20-nested-ref-order", "C20-nested-dup-overwrite", "C20-wrapper-panic")

RULE = ("TLC explores every pick order (= hash-map iteration order of the pending inputs) of the MultiParse state machine for ALL"
        " subsets of <= K definitions of a 26-definition universe (chains, diamonds, cycles, cross-namespace references, nested"
        " definitions referenced from other inputs, nested/top-level duplicates, dangling references, enum, inputs whose type is a"
        " definition) as parse_list input and as parse_str_with_list main+list [quick K=3/KW=2, thorough K=4 (core universe)/KW=3];"
        " the harness runs every scenario and seeded random sets of 2..5 inputs on the real crate for every permutation of the"
        " input list (5 inputs: 24 sampled permutations) x R runs with fresh hash seeds (quick R=20: a 2-way order dependence with the measured 0.4/0.6 split is missed"
        " with probability < 0.6^40 = 1.4e-9 per set of >= 2 inputs; thorough R=100, 50 for 4+ inputs) and Trace_MultiParse.tla judges"
        " each set. Non-trivial = sets with >= 2 inputs; distinct = distinct (form, inputs, main) hashes. The pick order itself is"
        " not observable (no hook), so order dependence is exposed by repetition, not by exhaustive replay.")


def harness(args, timeout=3000):
    p = subprocess.run([str(AVH_C20)] + [str(a) for a in args], stdout=subprocess.PIPE, stderr=subprocess.PIPE, text=True,
                       timeout=timeout)
    if p.returncode != 0:
        raise vf.ToolError(f"avh_c20 {args[0]} exited {p.returncode}: {p.stderr[-2000:]}")
    return p


def strip(scn):
    return {"form": scn["form"], "ins": scn["ins"], "main": scn["main"]}


def model_check(rep, work, tier):
    """All TLC model-checking jobs; at most 4 TLC workers at any time."""
    from concurrent.futures import ThreadPoolExecutor
    t = "q" if tier == "quick" else "t"
    viol = {"Confluent": "confluent", "MatchesDeclarative": "declarative", "ResultIsMeaning": "meaning"}

    def job(a):
        name, cfg, workers = a
        return name, vf.tlc_mc(work, "MC_MultiParse.tla", cfg, workers=workers, timeout=3000, meta=f"md-{name}")

    small = [(f"viol-{inv}", f"MC_MultiParse_viol_{c}.cfg", 1) for inv, c in viol.items()]
    small += [(f"closed-{m}", f"MC_MultiParse_closed_{m}.cfg", 1) for m in ("faithful", "intended")]
    big = [("intended", f"MC_MultiParse_intended_{t}.cfg", 2), ("emit", f"MC_MultiParse_emit_{t}.cfg", 2)]
    res = {}
    with ThreadPoolExecutor(max_workers=4) as ex:
        res.update(dict(ex.map(job, small)))
    with ThreadPoolExecutor(max_workers=2) as ex:
        res.update(dict(ex.map(job, big)))
    for r in res.values():
        rep.add_states(r.distinct, r.generated)
    # (a) vacuity guard: the model of the implementation must violate the properties it is known to break
    #     (design-level counterexamples): Confluent and MatchesDeclarative for the current tree ("faithful"),
    #     ResultIsMeaning for the pinned snapshot ("pinned", silent overwrite, repaired by 59a830b)
    for inv in viol:
        r = res[f"viol-{inv}"]
        flat = [x for pair in r.violated for x in pair if x]
        if r.ok or inv not in flat:
            raise vf.ToolError(f"vacuity: the MultiParse model of the implementation no longer violates {inv} (got ok={r.ok}, {r.violated})")
    vf.log("implementation model: TLC found the counterexamples to Confluent, MatchesDeclarative (current tree) and ResultIsMeaning (pinned snapshot)")
    # (b) the closed form used by the trace spec agrees with the state machine
    for mode in ("faithful", "intended"):
        r = res[f"closed-{mode}"]
        if not r.ok:
            raise vf.ToolError(f"MultiParse: AllOutcomes disagrees with the state machine ({mode}): {r.violated}")
    # (c) the intended design satisfies the properties over every pick order
    r = res["intended"]
    if not r.ok:
        raise vf.ToolError(f"the intended MultiParse design violates {r.violated}: the specification contradicts itself")
    vf.log(f"intended model: {r.distinct} states, all properties hold ({r.wall:.0f}s)")
    # (d) the faithful model, every scenario printed with its reachable outcomes
    r = res["emit"]
    if not r.ok:
        raise vf.ToolError(f"the model of the current implementation returns a wrong result on success (InputOrderPreserved / "
                           f"ResultIsMeaning): {r.violated}")
    scns = sorted(set(r.tagged("SCN")))
    if not scns:
        raise vf.ToolError("MC_MultiParse emitted no scenarios (vacuous run)")
    vf.log(f"faithful model: {r.distinct} states, {len(scns)} scenarios ({r.wall:.0f}s)")
    return [json.loads(s) for s in scns]


def selftest(work, events, model):
    """flip recorded fields of an accepted event: the trace spec must reject each variant"""
    base = None
    for l, m in zip(events, model):
        e = json.loads(l)
        if (m["expect"] == "ok" and len(m["reach"]) == 1 and e["form"] == "list" and len(e["ins"]) == 2 and len(e["obs"]) == 2
                and all(o["status"] == "ok" and o["n"] == e["runs"] for o in e["obs"]) and e["dat"]):
            base = e
            break
    if base is None:
        return 0
    variants = []
    a = json.loads(json.dumps(base)); a["obs"][0]["res"][0]["name"] += "x"; variants.append(("name", a))
    b = json.loads(json.dumps(base)); b["obs"][1]["res"].reverse(); variants.append(("order", b))
    c = json.loads(json.dumps(base)); c["obs"][0].update(status="err", res=[], dbg=[], dbgmain="", resolved="na"); variants.append(("status", c))
    d = json.loads(json.dumps(base)); d["obs"][0].update(status="panic", res=[], dbg=[]); variants.append(("panic", d))
    g = json.loads(json.dumps(base)); g["obs"][1]["dbg"][0] = "0" * 16; variants.append(("fingerprint", g))
    f = json.loads(json.dumps(base)); f["dat"][0]["dec"] = {"t": "null"}; variants.append(("decode", f))
    lines = []
    for i, (_, v) in enumerate([("clean", base)] + variants):
        v["id"] = i
        lines.append(json.dumps(v))
    swork = Path(work) / "selftest"
    (swork / "spec").mkdir(parents=True, exist_ok=True)
    for f in (Path(work) / "spec").iterdir():
        (swork / "spec" / f.name).write_bytes(f.read_bytes())
    verdicts, _, _ = vf.judge_events(swork, "Trace_MultiParse.tla", "Trace_MultiParse.cfg", lines, chunk=50, jobs=1)
    by = {v["id"]: v for v in verdicts}
    if 0 in by and by[0].get("fail"):
        raise vf.ToolError(f"selftest: the uncorrupted event was rejected: {by[0]}")
    want = {1: "C20:result-differs", 2: "C20:result-differs", 3: "C20:outcome-vs-declarative", 4: "C20:panic",
            5: "C20:order-dependent", 6: "C20:cross-order-decode"}
    for i, clause in want.items():
        if i not in by or clause not in by[i].get("fail", []):
            raise vf.ToolError(f"selftest: corrupted field '{variants[i - 1][0]}' was not rejected with {clause}: {by.get(i)}")
    return len(want)


def run(prop, tier, seed, replay=None):
    import time
    t0 = time.time()

    def lap(msg):
        vf.log(f"[{time.time() - t0:6.1f}s] {msg}")

    rep = vf.Report(prop, tier, seed)
    vf.build_harness()
    work = vf.fresh_workdir(f"{prop}-{tier}")
    model = []
    if replay:
        payload = json.loads(Path(replay).read_text())["payload"]
        scns = [strip(payload["scenario"])]
    else:
        model = model_check(rep, work, tier)
        lap("model checking done")
        scns = [strip(m) for m in model]
        nrand = 400 if tier == "quick" else 3000
        gen = work / "rand.scn.ndjson"
        harness(["gen", "--seed", seed, "--count", nrand, "--out", gen])
        scns += [json.loads(l) for l in gen.read_text().splitlines() if l.strip()]
    scn_file = work / "all.scn.ndjson"
    scn_file.write_text("\n".join(json.dumps(s) for s in scns) + "\n")
    ev_file = work / "events.ndjson"
    runs, runs_big = (20, 20) if tier == "quick" else (100, 50)
    p = harness(["run", "--scn", scn_file, "--out", ev_file, "--runs", runs, "--runs-big", runs_big, "--seed", seed,
                 "--pairs", 2 if tier == "quick" else 3, "--threads", 4])
    events = [l for l in ev_file.read_text().splitlines() if l.strip()]
    lap(f"harness: {len(events)} input sets executed")
    if len(events) != len(scns):
        raise vf.ToolError(f"harness recorded {len(events)} events for {len(scns)} scenarios")
    verdicts, st, tr = vf.judge_events(work, "Trace_MultiParse.tla", "Trace_MultiParse.cfg", events, chunk=500, jobs=4, timeout=3000)
    rep.add_states(st, tr)
    lap(f"trace spec: {len(events)} events judged, {len(verdicts)} not clean")
    nself = 0 if replay else selftest(work, events, model)
    lap(f"selftest: {nself} corruptions rejected")
    if not replay and nself == 0 and not any(c.startswith("C20:") for v in verdicts for c in v.get("fail", [])):
        raise vf.ToolError("selftest: no clean two-input event to corrupt although nothing was rejected")
    # ---- counts (measured on this run) ----
    calls = perms = ndat = multi = 0
    observed_dep = 0
    for l in events:
        e = json.loads(l)
        calls += sum(o["n"] for o in e["obs"])
        perms += len({tuple(o["perm"]) for o in e["obs"]})
        ndat += len(e["dat"])
        multi += 1 if len(e["ins"]) >= 2 else 0
        observed_dep += 1 if len({json.dumps([o["status"], o["res"] and sorted(zip(o["perm"], map(json.dumps, o["res"])))]) for o in e["obs"]}) > 1 else 0
    model_dep = sum(1 for m in model if len(m["reach"]) > 1)
    if not replay:
        if model_dep == 0:
            raise vf.ToolError("vacuity: no scenario of the faithful model is order dependent")
        if ndat == 0:
            raise vf.ToolError("vacuity: no datum was exchanged across orderings")
        if multi == 0:
            raise vf.ToolError("vacuity: no input set with two or more inputs")
    rep.cov["traces_validated_against_impl"] = len(events)
    rep.cov["evaluations"] = calls
    rep.cov["distinct_nontrivial"] = vf.distinct_hashes([s for s in scns if len(s["ins"]) >= 2])
    rep.cov["rule"] = RULE
    rep.cov["exhaustive"] = False
    rep.cov["c20"] = {"scenarios_from_tlc": len(model), "scenarios_random": len(scns) - len(model), "parse_calls": calls,
                      "permutations_executed": perms, "datum_exchanges": ndat, "runs_per_permutation": runs,
                      "order_dependent_sets_in_faithful_model": model_dep, "order_dependent_sets_observed": observed_dep,
                      "expect": {k: sum(1 for m in model if m["expect"] == k) for k in ("ok", "err", "either")},
                      "selftest_corruptions_rejected": nself}
    for m in model[:1] + model[len(model) // 2: len(model) // 2 + 1] + [m for m in model if len(m["reach"]) > 1][:2]:
        rep.sample({"form": m["form"], "ins": m["ins"], "main": m["main"], "expect": m["expect"],
                    "reach": [o["status"] for o in m["reach"]]})
    if replay:
        rep.sample({"replayed": scns[0]})
    rep.assumptions += [
        "spec/MultiParse.tla is the oracle: Meaning/Expect are the declarative reading of the Avro name rules, AllOutcomes the closed form of the state machine (agreement model-checked)",
        "the pick order of the pending HashMap is neither observable nor controllable without a source hook (proposed/C20-parser-hook.patch); order dependence is exposed by repeating every call with fresh hash seeds",
        "grey zones accepted either way but required to be deterministic: inputs whose type is a definition; a list that refers to definitions of the main schema; use before definition inside one document",
        "the harness' rendering of written forms to JSON text and its Schema -> term projection (harness/src/bin/avh_c20.rs) are trusted",
    ]

    def replay_of(i):
        return {"scenario": scns[i], "event": json.loads(events[i])}

    rep.classify(verdicts, replay_of)
    return rep.finish()
