"""C15: every codec round-trips every payload and interoperates with reference codecs.

Pipeline: (1) TLC model-checks MC_Codec (the codec contract machine driven by the spec's own snappy / deflate
encoders and decoders) and prints every spec-made stream; (2) the harness (avh_c15) runs payload classes x codecs
x levels through Codec::compress / decompress, feeds it spec-made and reference-made streams, damaged streams,
hostile bytes and bombs (second process with a low allocation limit), and writes container files;
bin/lib/refcodec.py adds the readings of the reference decompressors; (3) Trace_Codec.tla judges every event."""
import json
import random
import subprocess
from concurrent.futures import ThreadPoolExecutor
from pathlib import Path

import refcodec
import vf

AVH15 = vf.HARNESS / "target" / "release" / "avh_c15"
LOW_LIMIT = 4096

RULE = ("MC_Codec: all byte strings of length <= 3 (thorough: 4) over {0,97,255} plus structured payloads x the spec's encoders "
        "(snappy literal/copy forms with every length-field width, deflate stored and fixed-Huffman) with every trailer bit flip "
        "and truncation; every spec-made stream is fed to the library. Harness: seeded payload classes (empty, 1 byte, small <= 1 KiB, "
        "70 000-byte run, 100 000 pseudo-random bytes, text [thorough: 65535/65536/65537, 300 000 text, period 40 000]) x 6 codecs x levels "
        "(quick: deflate all 6, bzip2 1/5/9, xz 0/6/9, zstandard 0/1/3/9; thorough: every level); reference-made streams "
        "(zlib raw 0/1/9/fixed/huffman-only/full-flush, bz2 1/9, xz 0/6/9e, 3 check types); trailer bit flips, truncations, random bit flips; "
        "container files per codec x level; hostile bytes, bombs and at-limit payloads under max_allocation_bytes=4096. "
        "Non-trivial = payload not empty or event not a plain round trip; distinct = distinct (kind, codec, level, payload/stream hash, damage).")


def levels(codec, tier):
    if codec in ("null", "snappy"):
        return [0]
    if codec == "deflate":
        return [0, 1, 6, 9, 10, 255]
    if tier == "thorough":
        return {"bzip2": list(range(1, 10)), "xz": list(range(0, 10)), "zstandard": list(range(0, 23))}[codec]
    # (zstandard's streaming encoder without a size hint allocates the full tables of the level: 2-25 s per call
    #  at levels 16-22 on this machine, whatever the payload size; the quick tier stays below)
    return {"bzip2": [1, 5, 9], "xz": [0, 6, 9], "zstandard": [0, 1, 3, 9]}[codec]


CODECS = ["null", "deflate", "snappy", "bzip2", "xz", "zstandard"]
LOW_LEVELS = {"null": [0], "snappy": [0], "deflate": [0, 255], "bzip2": [1, 9], "xz": [0, 9], "zstandard": [0, 9]}


def is_full(codec, p):
    """does the event carry the bytes, so that the TLA+ transcription itself reads the stream?"""
    if p["len"] <= 1024:
        return True
    if codec == "snappy":
        return p["len"] <= 120000
    if codec == "deflate":
        return p["cls"] == "run"          # few symbols: cheap for the TLA+ inflate
    return False


def build_scenarios(work, tier, seed, foreign=True):
    rng = random.Random(seed * 104729 + 5)
    table = refcodec.write_payloads(seed, tier, work / "payloads")
    by = {p["name"]: p for p in table}
    normal, low = [], []
    # --- round trips: payload x codec x level
    slow_ok = {"empty", "one-r", "small-61-" , "run-70000", "prng-100000", "text-20000"}
    for p in table:
        for c in CODECS:
            for lv in levels(c, tier):
                if c == "zstandard" and lv >= 16 and not any(p["name"].startswith(x) for x in slow_ok):
                    continue      # 2-25 s per call whatever the size (see levels()): a subset of the payloads only
                if p["cls"] == "maxrun" and c not in ("deflate", "snappy") and (tier == "quick" or lv != levels(c, tier)[-1]):
                    continue      # 4 MiB: every deflate level and snappy; the other codecs at their highest level (thorough)
                normal.append({"k": "rt", "codec": c, "level": lv, "payload": p["path"], "cls": p["cls"], "pname": p["name"],
                               "full": is_full(c, p)})
    # --- reference-made streams (library must read them)
    ref_payloads = table if tier == "thorough" else [p for p in table if p["cls"] != "small" or p["len"] in (5, 61, 257, 1024)]
    for s in (refcodec.make_foreign(ref_payloads, work / "foreign") if foreign else []):
        normal.append(s)
    # --- damage
    smalls = [p for p in table if p["cls"] in ("empty", "one", "small")]
    flip_targets = [by["empty"], by["one-r"]] + rng.sample([p for p in smalls if p["len"] >= 2], 2 if tier == "quick" else 6)
    for p in flip_targets:
        for k in range(1, 5):
            for bit in range(8):
                normal.append({"k": "corrupt", "codec": "snappy", "level": 0, "payload": p["path"], "kind": "flip", "idx": k, "bit": bit, "n": 0})
    for c in CODECS:
        if c == "null":
            continue
        for p in rng.sample([q for q in smalls if q["len"] >= 2], 2 if tier == "quick" else 5):
            lv = rng.choice([x for x in levels(c, tier) if not (c == "zstandard" and x >= 16)])
            # absolute cut points; cuts beyond the compressed length are recorded as "not applied" and skipped by the judge
            for n in sorted({0, 1, 2, 3, 4, 5, 8, 12, 16, 24, 40}):
                normal.append({"k": "corrupt", "codec": c, "level": lv, "payload": p["path"], "kind": "trunc", "idx": 0, "bit": 0, "n": n})
            for _ in range(6 if tier == "quick" else 20):
                normal.append({"k": "corrupt", "codec": c, "level": lv, "payload": p["path"], "kind": "flipany",
                               "idx": rng.randrange(1, 48), "bit": rng.randrange(8), "n": 0})
    # --- container files
    vals_sets = [[list(b"")], [list(b"a"), list(Path(by["text-small"]["path"]).read_bytes()[:300])],
                 [list(rng.randbytes(40)), list(b""), list(bytes([7]) * 200)]]
    for c in CODECS:
        for lv in levels(c, tier):
            for vs in (vals_sets if tier == "thorough" and not (c == "zstandard" and lv >= 16) else vals_sets[1:2]):
                normal.append({"k": "file", "codec": c, "level": lv, "values": vs})
    # --- container files laid out by a foreign writer (reference codecs)
    fvals = [b"", b"avro", Path(by["text-small"]["path"]).read_bytes()[:500], bytes(rng.randbytes(70))]
    normal += refcodec.make_files(work / "ffiles", fvals)
    # --- the low-limit process: bombs, hostile bytes, at-limit payloads
    (work / "hostile").mkdir(exist_ok=True)
    edge = []
    for name, b in (("limit-zeros", bytes(LOW_LIMIT)), ("limit-rand", rng.randbytes(LOW_LIMIT)),
                    ("limit+1-zeros", bytes(LOW_LIMIT + 1)), ("limit+1-rand", rng.randbytes(LOW_LIMIT + 1))):
        f = work / "hostile" / f"{name}.bin"
        f.write_bytes(b)
        edge.append({"name": name, "cls": "edge", "path": str(f), "len": len(b)})
    for p in edge:
        for c in CODECS:
            for lv in LOW_LEVELS[c]:
                low.append({"k": "rt", "codec": c, "level": lv, "payload": p["path"], "cls": "edge", "pname": p["name"],
                            "full": c in ("snappy", "null") })
    million = bytes(1 << 20)
    for c in CODECS:
        if c == "null":
            continue
        for lv in LOW_LEVELS[c]:
            low.append({"k": "hostile", "codec": c, "what": f"library-made bomb: 1 MiB of zeros at level {lv}",
                        "bomb": {"level": lv, "byte": 0, "n": 1 << 20}, "denotes_len": 1 << 20})
    for codec, maker, f in refcodec.makers():
        if maker in ("zlib-9", "zlib-0-stored", "bz2-9", "lzma-xz-6"):
            sp = work / "hostile" / f"bomb.{maker}"
            sp.write_bytes(f(million))
            low.append({"k": "hostile", "codec": codec, "what": f"reference-made bomb ({maker}): 1 MiB of zeros",
                        "stream_file": str(sp), "denotes_len": 1 << 20})
    # spec-shaped snappy bombs: the preamble promises 2^30 / 2^31 / 2^32-1 bytes
    for what, pre in (("preamble 2^30", [128, 128, 128, 128, 4]), ("preamble 2^31", [128, 128, 128, 128, 8]),
                      ("preamble 2^32-1", [255, 255, 255, 255, 15]), ("preamble 5000, 1 literal", [136, 39, 0, 65])):
        low.append({"k": "hostile", "codec": "snappy", "what": "snappy " + what, "stream": pre + [0, 0, 0, 0], "denotes_len": 0})
    nrand = 12 if tier == "quick" else 60
    for c in CODECS:
        for i in range(nrand):
            n = rng.choice([0, 1, 2, 3, 4, 5, 6, 8, 12, 16, 24, 40, 64])
            b = list(rng.randbytes(n))
            if c == "snappy" and i % 2 == 0 and n >= 5:
                b[0] = rng.randrange(1, 40)       # a plausible preamble, so that the element decoder is reached
            if c == "deflate" and i % 2 == 0 and n >= 1:
                b[0] = (b[0] & 0xF8) | rng.choice([1, 3, 5])   # final block, stored / fixed / dynamic
            low.append({"k": "hostile", "codec": c, "what": "random bytes", "stream": b, "denotes_len": 0})
    return table, normal, low


def spec_scenarios(scn_lines):
    """TLC's SCN lines -> foreign scenarios with origin "spec" """
    out = []
    for line in scn_lines:
        j = json.loads(line)
        out.append({"k": "foreign", "codec": j["codec"], "origin": "spec", "maker": j["enc"], "stream": j["stream"],
                    "plain": j["plain"], "full": True, "cls": "spec"})
    return out


def run_harness_one(work, name, scns, limit):
    scn_file = work / f"{name}.scn.ndjson"
    scn_file.write_text("\n".join(json.dumps(s) for s in scns) + "\n")
    out = work / f"{name}.events.ndjson"
    blobs = work / f"{name}.blobs"
    cmd = [str(AVH15), "run", "--scn", str(scn_file), "--out", str(out), "--blobs", str(blobs)]
    if limit is not None:
        cmd += ["--limit", str(limit)]
    p = subprocess.run(cmd, stdout=subprocess.PIPE, stderr=subprocess.PIPE, text=True, timeout=1500)
    if p.returncode != 0:
        raise vf.ToolError(f"avh_c15 exited {p.returncode}: {p.stderr[-2000:]}")
    evs = [json.loads(l) for l in out.read_text().splitlines() if l.strip()]
    if len(evs) != len(scns):
        raise vf.ToolError(f"avh_c15 recorded {len(evs)} events for {len(scns)} scenarios")
    return refcodec.add_ref_fields(evs, blobs)


def run_harness(work, name, scns, limit=None, procs=1):
    """runs the scenarios in `procs` harness processes (slowest first, dealt round-robin); events in scenario order"""
    if not scns:
        return []
    def cost(s):
        return -(s.get("level", 0) if s.get("codec") == "zstandard" else 0)
    order = sorted(range(len(scns)), key=lambda i: cost(scns[i]))
    parts = [[scns[i] for i in order[k::procs]] for k in range(procs)]
    with ThreadPoolExecutor(max_workers=procs) as ex:
        res = list(ex.map(lambda a: run_harness_one(work, f"{name}{a[0]}", a[1], limit), [(k, p) for k, p in enumerate(parts) if p]))
    by_id = {e["id"]: e for part in res for e in part}
    return [by_id[s["id"]] for s in scns]


def tampered(events):
    """Binding self-test: copies of accepted events with ONE recorded field falsified; the trace spec must reject each
    with the named clause.  -> list of (event, expected clause)"""
    import copy
    import hashlib
    import zlib
    out = []

    def first(pred):
        for e in events:
            if pred(e):
                return copy.deepcopy(e)
        return None

    def add(e, clause, f):
        if e is not None:
            base = e["id"]
            f(e)
            e["id"] = 1000000 + len(out)
            out.append((e, clause, base))

    ok_rt = lambda c: (lambda e: e["ev"] == "rt" and e["codec"] == c and e.get("full") and e["d_ok"] and 4 <= e["in_len"] <= 1024)

    def t_trailer(e):
        e["comp"][-1] ^= 1
        e["trailer"][-1] ^= 1
    add(first(ok_rt("snappy")), "C15:snappy-trailer-not-BE-CRC32-of-input", t_trailer)

    def t_block(e):
        e["comp"][0] ^= 1          # the preamble (declared length) no longer matches
    add(first(ok_rt("snappy")), "C15:snappy-block-not-denoting-input", t_block)

    def t_out(e):
        e["out"][0] ^= 1
        e["out_sha"] = hashlib.sha256(bytes(e["out"])).hexdigest()
    add(first(ok_rt("deflate")), "C15:roundtrip-differs", t_out)

    def t_zlib(e):
        z = zlib.compress(bytes(e["input"]), 6)
        e["comp"], e["comp_len"] = list(z), len(z)
    add(first(ok_rt("deflate")), "C15:deflate-not-raw-rfc1951-denoting-input", t_zlib)
    add(first(ok_rt("bzip2")), "C15:reference-decoder-rejects-library-stream", lambda e: e.update({"ref_ok": False, "ref_out": []}))
    add(first(lambda e: e["ev"] == "rt" and e["codec"] == "xz" and not e.get("full") and e["d_ok"]), "C15:roundtrip-differs",
        lambda e: e.update({"out_sha": "0" * 64}))
    add(first(lambda e: e["ev"] == "rt" and e["codec"] == "zstandard" and e["d_ok"] and e["in_len"] > 0), "C15:roundtrip-decompress-failed",
        lambda e: e.update({"d_ok": False, "out": [], "out_len": 0}))
    add(first(lambda e: e["ev"] == "corrupt" and e["kind"] == "flip" and e["applied"] and not e["d_ok"]), "C15:wrong-snappy-checksum-accepted",
        lambda e: e.update({"d_ok": True, "out": e["input"], "out_len": len(e["input"])}))
    add(first(lambda e: e["ev"] == "hostile" and not e["d_ok"] and e["codec"] == "xz"), "C15:output-larger-than-limit",
        lambda e: e.update({"d_ok": True, "out_len": e["limit"] + 1}))
    add(first(lambda e: e["ev"] == "file" and e["codec"] == "bzip2" and e["w_ok"]), "C15:header-codec-name",
        lambda e: e.update({"meta_codec": list(b"bzip3")}))
    add(first(lambda e: e["ev"] == "file" and e["codec"] == "snappy" and e["r_ok"]), "C15:file-roundtrip",
        lambda e: e.update({"r_values": e["r_values"][:-1]}))
    add(first(lambda e: e["ev"] == "foreign" and e["origin"] == "spec" and e["codec"] == "snappy" and e["d_ok"] and e["plain_len"] > 0),
        "C15:spec-made-stream-rejected", lambda e: e.update({"d_ok": False, "out": [], "out_len": 0}))
    add(first(lambda e: e["ev"] == "foreign" and e["origin"] == "reference" and e["codec"] == "xz" and e["d_ok"] and e["plain_len"] > 0),
        "C15:reference-made-stream-decoded-differently", lambda e: e.update({"out_sha": "1" * 64}))
    return out


def weight(e):
    """rough judging cost, to spread the heavy events over the chunks"""
    n = e.get("in_len", 0) + e.get("stream_len", 0) + e.get("plain_len", 0)
    return n if e.get("full") else 0


def run(prop, tier, seed, replay=None):
    rep = vf.Report(prop, tier, seed)
    vf.build_harness()
    work = vf.fresh_workdir(f"{prop}-{tier}")
    if replay:
        rp = json.loads(Path(replay).read_text())["payload"]
        scn = rp["scenario"]
        # regenerate the payload / foreign-stream files the scenario names (deterministic in seed and tier)
        build_scenarios(work, rp["tier"], rp["seed"], foreign="stream_file" in scn)
        for k in ("payload", "stream_file", "plain_file", "file"):   # ... which live in this run's work directory
            if k in scn:
                scn[k] = str(work / Path(scn[k]).parent.name / Path(scn[k]).name)
        scn["id"] = 0
        evs = run_harness(work, "replay", [scn], limit=LOW_LIMIT if rp["low"] else None)
        groups = [(evs, [scn], rp["low"])]
        all_scns = [(scn, rp["low"])]
    else:
        cfgs = ["MC_Codec_quick.cfg"] if tier == "quick" else ["MC_Codec_thorough.cfg", "MC_Codec_big.cfg"]

        def model_check():
            lines = []
            for i, cfg in enumerate(cfgs):
                r = vf.tlc_mc(work, "MC_Codec.tla", cfg, workers=4, timeout=1200, meta=f"md-mc{i}")
                if not r.ok:
                    raise vf.ToolError(f"MC_Codec/{cfg}: the transcription contradicts itself: {r.violated}")
                rep.add_states(r.distinct, r.generated)
                vf.log(f"MC_Codec/{cfg}: {r.distinct} states in {r.wall:.0f}s")
                got = sorted(set(r.tagged("SCN")))
                if not got:
                    raise vf.ToolError(f"MC_Codec/{cfg} emitted no scenarios (vacuous run)")
                lines += got
            return lines

        with ThreadPoolExecutor(max_workers=1) as bg:
            mc = bg.submit(model_check)                      # TLC explores the model while the harness executes
            table, normal, low = build_scenarios(work, tier, seed)
            for i, s in enumerate(normal):
                s["id"] = i
            for i, s in enumerate(low):
                s["id"] = len(normal) + i
            vf.log(f"{len(normal)} + {len(low)} scenarios built")
            with ThreadPoolExecutor(max_workers=2) as ex:
                f_low = ex.submit(run_harness, work, "low", low, LOW_LIMIT, 1)
                ev_normal = run_harness(work, "normal", normal, None, 3)
                ev_low = f_low.result()
            vf.log(f"{len(ev_normal)} + {len(ev_low)} events recorded")
            spec = spec_scenarios(mc.result())
        for i, s in enumerate(spec):
            s["id"] = len(normal) + len(low) + i
        ev_spec = run_harness(work, "spec", spec, None, 1)
        groups = [(ev_normal, normal, False), (ev_low, low, True), (ev_spec, spec, False)]
        all_scns = [(s, False) for s in normal] + [(s, True) for s in low] + [(s, False) for s in spec]
    events = [e for g in groups for e in g[0]]
    vf.log(f"{len(events)} events recorded")
    # vacuity: every kind and every codec must have been exercised
    if not replay:
        kinds = {(e["ev"], e["codec"]) for e in events}
        for k in ("rt", "foreign", "corrupt", "hostile", "file", "ffile"):
            for c in CODECS:
                skip = (k in ("foreign", "ffile") and c == "zstandard") or (k == "corrupt" and c == "null")
                if (k, c) not in kinds and not skip:
                    raise vf.ToolError(f"no {k} event for codec {c} (vacuous run)")
        if not any(e["ev"] == "hostile" and e["limit"] == LOW_LIMIT for e in events):
            raise vf.ToolError("the low allocation limit was not in force in the second harness process")
        for kind in ("flip", "trunc", "flipany"):
            if sum(1 for e in events if e["ev"] == "corrupt" and e["kind"] == kind and e["applied"]) < 20:
                raise vf.ToolError(f"fewer than 20 applicable '{kind}' damages (vacuous run)")
    # spread heavy events: sort by weight and deal round-robin into chunks
    order = sorted(range(len(events)), key=lambda i: -weight(events[i]))
    nchunks = 4 if len(events) < 4000 else 8          # JVM start-up (5-20 s) dominates small chunks
    chunks = [[] for _ in range(nchunks)]
    for j, i in enumerate(order):
        chunks[j % nchunks].append(i)
    lines = []
    for ch in chunks:
        lines += [json.dumps(events[i]) for i in ch]
    sizes = [len(ch) for ch in chunks]
    # judge_events cuts by a fixed chunk size: pad to equal sizes by cutting at max size is not possible, so cut manually
    verdicts, st, tr = [], 0, 0
    pos = 0
    tdir = work / "traces"
    tdir.mkdir(exist_ok=True)
    files = []
    for ci, n in enumerate(sizes):
        if n == 0:
            continue
        f = tdir / f"codec-{ci:03d}.ndjson"
        f.write_text("\n".join(lines[pos:pos + n]) + "\n")
        files.append((ci, f))
        pos += n

    # binding self-test: falsified copies of accepted events must be rejected with the expected clause
    tamp = tampered(events) if not replay else []
    if tamp:
        f = tdir / "codec-selftest.ndjson"
        f.write_text("\n".join(json.dumps(e) for e, _, _ in tamp) + "\n")
        files.append((99, f))

    def one(a):
        return vf.tlc_judge_file(work, "Trace_Codec.tla", "Trace_Codec.cfg", a[1], a[0], timeout=1500)

    with ThreadPoolExecutor(max_workers=4) as ex:
        for r in ex.map(one, files):
            st += r.distinct
            tr += r.generated
            seen = set()
            for s in r.tagged("VERDICT"):
                if s not in seen:
                    seen.add(s)
                    verdicts.append(json.loads(s))
    if tamp:
        got = {v["id"]: v for v in verdicts if v["id"] >= 1000000}
        verdicts = [v for v in verdicts if v["id"] < 1000000]
        # only originals the trace spec accepted are a valid basis (a real violation must not be masked by the self-test)
        unclean = {v["id"] for v in verdicts if v.get("fail")}
        basis = [(e, clause) for e, clause, base in tamp if base not in unclean]
        missed = [(e["id"], e["ev"], e["codec"], clause) for e, clause in basis if clause not in got.get(e["id"], {}).get("fail", [])]
        if missed or (len(basis) < 10 and not unclean):
            raise vf.ToolError(f"binding self-test: falsified events not rejected as expected: {missed} ({len(basis)} tampered)")
        rep.cov["selftest_tampered_events_rejected"] = len(basis)
    vf.log(f"judged: {len(verdicts)} non-clean verdicts")
    rep.add_states(st, tr)
    rep.cov["traces_validated_against_impl"] = len(events)
    rep.cov["evaluations"] = len(events)

    def key(e):
        return {"ev": e["ev"], "codec": e["codec"], "level": e.get("level", 0),
                "data": e.get("in_sha") or e.get("plain_sha") or e.get("out_sha"), "len": e.get("stream_len", 0),
                "dmg": [e.get("kind", ""), e.get("k", 0), e.get("bit", 0), e.get("n", 0)], "values": e.get("values", [])}
    rep.cov["distinct_nontrivial"] = vf.distinct_hashes(
        [key(e) for e in events if not (e["ev"] == "rt" and e.get("in_len", 0) == 0 and e["codec"] == "null")])
    rep.cov["rule"] = RULE
    rep.cov["per_kind"] = {k: sum(1 for e in events if e["ev"] == k) for k in ("rt", "foreign", "corrupt", "hostile", "file", "ffile")}
    rep.cov["judged_in_tla_from_bytes"] = sum(1 for e in events if e.get("full") or e["ev"] in ("corrupt", "file"))
    rep.cov["judged_by_reference_reading_only"] = sum(1 for e in events if e["ev"] == "rt" and not e.get("full") and e.get("ref_avail"))
    rep.cov["zstandard_events_round_trip_only"] = sum(1 for e in events if e["codec"] == "zstandard")
    for e in events[:2] + events[len(events) // 2: len(events) // 2 + 2] + events[-2:]:
        rep.sample({k: (v if not isinstance(v, list) or len(v) <= 24 else v[:24] + ["..."]) for k, v in e.items()})
    rep.assumptions += [
        "spec/Codec.tla (CRC-32, snappy raw format, RFC 1951 inflate incl. dynamic Huffman, stored/fixed encoders) is the oracle; "
        "its consistency is model-checked by MC_Codec and pinned by ASSUMEd vectors (CRC-32 check value, hand-made snappy streams, zlib outputs)",
        "Python zlib/bz2/lzma are instruments (property observe_at): bzip2/xz bit-streams and deflate blocks whose bytes are not recorded "
        "are judged through the reference decompressor's reading (accepts exactly one stream, output = input)",
        "zstandard has NO reference implementation on this image: only round trip, the allocation cap, hostile input and header metadata are decided",
        "large payloads are compared by length + SHA-256 taken by the harness (sha2 crate) and by Python hashlib",
        "the null codec is exempt from the cap clause (it produces no new data: the caller already holds the bytes)",
    ]
    by_id = {e["id"]: e for e in events}
    scn_by_id = {s["id"]: (s, lowp) for s, lowp in all_scns}

    def replay_of(i):
        s, lowp = scn_by_id[i]
        ev = {k: (v if not isinstance(v, list) or len(v) <= 400 else v[:400] + ["..."]) for k, v in by_id[i].items()}
        return {"seed": seed if not replay else rp["seed"], "tier": tier if not replay else rp["tier"], "low": lowp, "scenario": s, "event": ev}

    rep.classify(verdicts, replay_of)
    return rep.finish()
