"""C01 (datum round trip) and C02 (encoding follows the specification, both directions)."""
import json
from pathlib import Path
import vf

RULE = ("TLC enumerates MC_Datum's bounded universe (leaves, depth-1 composites, named/recursive shapes"
        " [+ depth-2 sample in thorough]) x boundary values x 6 block/sign/order layouts; the harness adds seeded random"
        " (schema, value) pairs of depth <= 4 whose layouts TLC computes (Layouts.tla). Every case is executed on the real"
        " GenericDatumWriter/Reader and judged by Trace_Datum.tla. Non-trivial = schema is not the bare null schema;"
        " distinct = distinct (schema, value) hashes.")


def gen_random(work, seed, count, depth):
    scn = work / "rand.scn.ndjson"
    vf.avh(["datum-gen", "--seed", seed, "--count", count, "--depth", depth, "--out", scn])
    lines = [l for l in scn.read_text().splitlines() if l.strip()]
    # spec -> impl: TLC computes the spec-legal alternative layouts of each random case
    out = []
    chunk = 400
    files = []
    for i in range(0, len(lines), chunk):
        f = work / f"rand-{i // chunk:03d}.ndjson"
        f.write_text("\n".join(lines[i:i + chunk]) + "\n")
        files.append((i, f))
    from concurrent.futures import ThreadPoolExecutor

    def one(a):
        base, f = a
        r = vf.tlc_judge_file(work, "Layouts.tla", "Layouts.cfg", f, f"lay{base}")
        return base, r

    with ThreadPoolExecutor(max_workers=8) as ex:
        for base, r in ex.map(one, files):
            lays = {}
            for s in r.tagged("LAY"):
                j = json.loads(s)
                lays[j["id"]] = j["layouts"]
            for k in range(len(lines[base:base + chunk])):
                scn_j = json.loads(lines[base + k])
                scn_j["layouts"] = lays.get(k, [])
                out.append(json.dumps(scn_j))
    return out


def run(prop, tier, seed, replay=None):
    rep = vf.Report(prop, tier, seed)
    vf.build_harness()
    work = vf.fresh_workdir(f"{prop}-{tier}")
    if replay:
        payload = json.loads(Path(replay).read_text())["payload"]
        scns = [json.dumps(payload["scenario"])]
    else:
        cfgs = ["MC_Datum_d1.cfg"] if tier == "quick" else ["MC_Datum_d2.cfg"]
        scns = []
        for cfg in cfgs:
            r = vf.tlc_mc(work, "MC_Datum.tla", cfg, workers=8, timeout=1500)
            if not r.ok:
                # the transcription contradicts itself: a tool problem, not a verdict on the code
                raise vf.ToolError(f"MC_Datum invariant violated: {r.violated}")
            rep.add_states(r.distinct, r.generated)
            scns += sorted(set(r.tagged("SCN")))
        if not scns:
            raise vf.ToolError("MC_Datum emitted no scenarios (vacuous run)")
        nrand, depth = (250, 3) if tier == "quick" else (4000, 4)
        scns += gen_random(work, seed, nrand, depth)
        # decimals whose two's-complement form is narrower than the fixed they are stored in, negative and positive,
        # and the extremes of the width (sign extension, not zero padding)
        for size in (1, 4, 9):
            sch = {"k": "decimal", "base": "fixed", "name": f"ns.Dec{size}", "size": size, "precision": 2 if size == 1 else 9, "scale": 1}
            for b in ([255], [128], [127], [1], [0], [255, 133], [128, 0], [0, 255]):
                if len(b) <= size:
                    scns.append(json.dumps({"s": sch, "v": {"t": "decimal", "b": b}, "layouts": []}))
        for b in ([255], [255, 133], [0, 255], []):
            scns.append(json.dumps({"s": {"k": "decimal", "base": "bytes", "precision": 9, "scale": 1}, "v": {"t": "decimal", "b": b}, "layouts": []}))
        rep.cov["exhaustive"] = False
    scn_file = work / "all.scn.ndjson"
    scn_file.write_text("\n".join(scns) + "\n")
    ev_file = work / "events.ndjson"
    vf.avh(["datum-run", "--scn", scn_file, "--out", ev_file])
    events = [l for l in ev_file.read_text().splitlines() if l.strip()]
    if len(events) != len(scns):
        raise vf.ToolError(f"harness recorded {len(events)} events for {len(scns)} scenarios")
    verdicts, st, tr = vf.judge_events(work, "Trace_Datum.tla", "Trace_Datum.cfg", events, chunk=400)
    rep.add_states(st, tr)
    rep.cov["traces_validated_against_impl"] = len(events)
    rep.cov["evaluations"] = len(events)
    parsed = [json.loads(s) for s in scns]
    rep.cov["distinct_nontrivial"] = vf.distinct_hashes(
        [{"s": p["s"], "v": p["v"]} for p in parsed if p["s"].get("k") != "null"])
    rep.cov["rule"] = RULE
    for p in parsed[:2] + parsed[len(parsed) // 2: len(parsed) // 2 + 2] + parsed[-2:]:
        rep.sample({"schema": p["s"], "value": p["v"], "layouts": len(p.get("layouts", []))})
    rep.assumptions += [
        "the TLA+ transcription of the Avro binary encoding (spec/AvroBinary.tla) is the oracle; its own consistency is model-checked by MC_Datum",
        "the harness' term<->Value projection (harness/src/term.rs) is trusted",
    ]

    def replay_of(i):
        return {"scenario": parsed[i], "event": json.loads(events[i])}

    rep.classify(verdicts, replay_of)
    return rep.finish()
