"""C16: schema-aware serde writer/reader vs. the documented mapping and vs. the generic-value route."""
import json
import random
from pathlib import Path
import subprocess
import vf

AVH16 = vf.HARNESS / "target" / "release" / "avh_c16"

RULE = ("TLC model-checks three models: MC_SerdeModel (the documented serde<->Avro mapping over a bounded universe of Rust"
        " types x boundary values, a corpus of real #[derive(Serialize, Deserialize)] types, and hand-written term/schema"
        " pairs), MC_SerdeRecord (the record serializer machine: every call order / skip / omission / duplicate over a"
        " 3-field record and every choice of defaults) and MC_SerdeBlock (direct vs buffered block writer). Every explored"
        " (term, schema[, corpus type]) and every finished record-machine history is executed on the real crate with"
        " target_block_size in {None, 1, 8, 1000000} and judged by Trace_Serde.tla. Non-trivial = the mapping relates term"
        " and schema (ToAvro defined); distinct = distinct (term, schema, corpus) hashes.")


def avh16(args, timeout=1800):
    p = subprocess.run([str(AVH16)] + [str(a) for a in args], stdout=subprocess.PIPE, stderr=subprocess.PIPE, text=True, timeout=timeout)
    if p.returncode != 0:
        raise vf.ToolError(f"harness {args[0]} exited {p.returncode}: {p.stderr[-2000:]}")
    return p


_T = [0.0]


def stage(name):
    import time as _t
    now = _t.time()
    if _T[0]:
        vf.log(f"{name}: +{now - _T[0]:.1f}s")
    _T[0] = now


def run(prop, tier, seed, replay=None):
    rep = vf.Report(prop, tier, seed)
    stage("start")
    vf.build_harness()
    work = vf.fresh_workdir(f"{prop}-{tier}")
    stage("harness build")
    rng = random.Random(seed)
    if replay:
        payload = json.loads(Path(replay).read_text())["payload"]
        scns = [json.dumps(payload["scenario"])]
    else:
        scns = []
        # the mapping over the universe + corpus
        r = vf.tlc_mc(work, "MC_SerdeModel.tla", f"MC_SerdeModel_{tier}.cfg", workers=4, timeout=1500)
        if not r.ok:
            raise vf.ToolError(f"MC_SerdeModel invariant violated (the model contradicts itself): {r.violated}")
        rep.add_states(r.distinct, r.generated)
        model_scns = sorted(set(r.tagged("SCN")))
        if not model_scns:
            raise vf.ToolError("MC_SerdeModel emitted no scenarios (vacuous run)")
        corpus_seen = {json.loads(s)["corpus"] for s in model_scns}
        names = set(avh16(["corpus-names"]).stdout.split())
        if names != corpus_seen - {""}:
            raise vf.ToolError(f"corpus of the harness and of SerdeTypes.tla differ: {sorted(names ^ (corpus_seen - {''}))}")
        scns += model_scns
        # the record serializer machine
        r = vf.tlc_mc(work, "MC_SerdeRecord.tla", "MC_SerdeRecord.cfg", workers=4, timeout=900)
        if not r.ok:
            raise vf.ToolError(f"MC_SerdeRecord invariant violated: {r.violated}")
        rep.add_states(r.distinct, r.generated)
        rec_scns = sorted(set(r.tagged("SCN")))
        if len(rec_scns) < 100:
            raise vf.ToolError("MC_SerdeRecord emitted too few histories (vacuous run)")
        if tier == "quick":
            rng.shuffle(rec_scns)
            rec_scns = sorted(rec_scns[:220])
        scns += rec_scns
        # the same machine over 4 (quick) / 5 (thorough) fields: several NON-ADJACENT fields wait in the cache at once and
        # one is released while another keeps waiting (cannot happen with three fields)
        cfgn = "MC_SerdeRecord4.cfg" if tier == "quick" else "MC_SerdeRecord5.cfg"
        r = vf.tlc_mc(work, "MC_SerdeRecord.tla", cfgn, workers=4, timeout=1500)
        if not r.ok:
            raise vf.ToolError(f"MC_SerdeRecord ({cfgn}) invariant violated: {r.violated}")
        rep.add_states(r.distinct, r.generated)
        wide = sorted(set(r.tagged("SCN")))
        if len(wide) < 100:
            raise vf.ToolError(f"{cfgn} emitted too few histories (vacuous run)")
        # histories in which a field is received while two non-adjacent earlier-received fields are still cached
        rng.shuffle(wide)
        wide = sorted(wide[:(260 if tier == "quick" else 3000)])
        rep.cov["record_histories_with_4_or_5_fields"] = len(wide)
        scns += wide
        # the block writer machine (small state machine: -coverage is fine here? it instantiates Enc/Parse: no)
        r = vf.tlc_mc(work, "MC_SerdeBlock.tla", "MC_SerdeBlock.cfg", workers=4, timeout=900)
        if not r.ok:
            raise vf.ToolError(f"MC_SerdeBlock invariant violated: {r.violated}")
        rep.add_states(r.distinct, r.generated)
        rep.cov["exhaustive"] = False
    scn_file = work / "all.scn.ndjson"
    scn_file.write_text("\n".join(scns) + "\n")
    ev_file = work / "events.ndjson"
    avh16(["serde-run", "--scn", scn_file, "--out", ev_file])
    stage("model checking + execution")
    events = [l for l in ev_file.read_text().splitlines() if l.strip()]
    if len(events) != len(scns):
        raise vf.ToolError(f"harness recorded {len(events)} events for {len(scns)} scenarios")
    verdicts, st, tr = vf.judge_events(work, "Trace_Serde.tla", "Trace_Serde.cfg", events, chunk=120, jobs=4)
    rep.add_states(st, tr)
    stage("judging")
    parsed = [json.loads(s) for s in scns]
    evs = [json.loads(e) for e in events]
    rep.cov["traces_validated_against_impl"] = len(events)
    rep.cov["evaluations"] = sum(len(e["runs"]) for e in evs)
    okser = sum(1 for e in evs if e["runs"] and all(r["ser"]["ok"] for r in e["runs"]))
    rep.cov["distinct_nontrivial"] = vf.distinct_hashes([p for p, e in zip(parsed, evs) if e["runs"] and e["runs"][0]["ser"]["ok"]])
    rep.cov["rule"] = RULE
    rep.cov["subjects_serialized_under_all_block_sizes"] = okser
    rep.cov["corpus_types"] = len({p["corpus"] for p in parsed if p["corpus"]})
    layouts = {"direct": 0, "buffered": 0}
    for e in evs:
        for r in e["runs"]:
            if r["ser"]["ok"]:
                layouts["direct" if r["t"] == 0 else "buffered"] += 1
    rep.cov["runs_by_writer_mode"] = layouts
    if not replay and (okser < 300 or rep.cov["corpus_types"] < 30):
        raise vf.ToolError(f"too little executed (serialized={okser}, corpus types={rep.cov['corpus_types']})")
    for p in parsed[:2] + parsed[len(parsed) // 2: len(parsed) // 2 + 2] + parsed[-2:]:
        rep.sample({"term": p["sv"], "schema": p["s"], "corpus": p["corpus"]})
    rep.assumptions += [
        "spec/AvroBinary.tla (Parse/Conforms/VEq) is the byte-level oracle; spec/SerdeModel.tla transcribes the documented serde mapping",
        "the harness' dynamic serde value (harness/src/sv.rs: Serialize issuing the described calls, shape-directed DeserializeSeed, capturing serializer) is trusted to record faithfully",
        "for corpus types the recorded term is what the real type serializes as (capturing serializer); its agreement with the model's term is reported as drift, not verdict",
    ]

    # binding self-test: a corrupted recording must be rejected by the trace spec (not a verdict on the crate)
    if not replay:
        clean_ids = {v["id"] for v in verdicts}
        victims = [e for e in evs if e["id"] not in clean_ids and e["runs"] and e["runs"][0]["ser"]["ok"]
                   and e["runs"][0]["ser"]["wire"] and e["runs"][0]["de"]["ok"]][:3]
        if len(victims) == 3:
            a, b, c = (json.loads(json.dumps(x)) for x in victims)
            a["runs"][0]["ser"]["n"] += 1                                   # returned count
            b["runs"][0]["ser"]["wire"][-1] ^= 0x40                          # one emitted byte
            c["runs"][0]["de"]["back"] = {"c": "unit_struct", "name": "Corrupted"}   # the value read back
            for i, x in enumerate((a, b, c)):
                x["id"] = i
            st_work = work / "selftest"
            (st_work / "spec").mkdir(parents=True)
            for f in (work / "spec").iterdir():
                (st_work / "spec" / f.name).write_bytes(f.read_bytes())
            sv, _, _ = vf.judge_events(st_work, "Trace_Serde.tla", "Trace_Serde.cfg", [json.dumps(x) for x in (a, b, c)], chunk=10, jobs=1)
            rejected = {v["id"] for v in sv if any(cl.startswith("C16:") for cl in v.get("fail", []))}
            rep.cov["binding_selftest"] = {"corrupted_events": 3, "rejected": len(rejected)}
            if rejected != {0, 1, 2}:
                raise vf.ToolError(f"binding self-test: corrupted recordings were not all rejected ({sorted(rejected)})")

    def replay_of(i):
        return {"scenario": parsed[i], "event": evs[i]}

    rep.classify(verdicts, replay_of)
    return rep.finish()
