"""C17: derived schemas.  TLC (MC_DeriveModel) emits type definitions + expected schema + values; this glue renders
the definitions as Rust into harness/corpus_c17/part*/generated.rs, cargo compiles the corpus (the proc-macro
#[derive(AvroSchema)] runs on every definition), the corpus binary executes every scenario on the real crate, and
Trace_Derive.tla judges the recorded executions."""
import hashlib
import json
import os
import random
import re
import subprocess
import time
from pathlib import Path
import vf

CORPUS = vf.HARNESS / "corpus_c17"
PARTS = 4
AVH17 = vf.HARNESS / "target" / "release" / "avh_c17"

RULE = ("TLC model-checks MC_DeriveModel (type definitions: field types x container/variant/field attributes x type graphs with"
        " <= 4 named types; the documented derive is coherent with the documented serde mapping: expected schema well formed,"
        " second use is a reference, every value of the serde representation denotes a conforming value) and MC_DeriveCtx (the"
        " named-set context machine over all type graphs with <= 3 named types). Each emitted definition set is rendered to Rust"
        " with #[derive(AvroSchema, Serialize, Deserialize)], compiled, and executed: get_schema() twice, JSON round trip,"
        " write_ser/read_deser and a container-file round trip for TLC-chosen values; Trace_Derive.tla judges every execution."
        " Non-trivial = the definition compiled and get_schema() returned; distinct = distinct definition sets.")

SCALAR_RUST = {"bool": "bool", "i8": "i8", "i16": "i16", "i32": "i32", "i64": "i64", "u8": "u8", "u16": "u16", "u32": "u32",
               "u64": "u64", "i128": "i128", "u128": "u128", "f32": "f32", "f64": "f64", "char": "char", "str": "String",
               "unit": "()"}
VOCAB_CAP = lambda w: w[:1].upper() + w[1:]


def demark(j):
    if isinstance(j, str):
        if j == "@null":
            return None
        if j == "@obj":
            return {}
        if j.startswith("@f:"):
            return float(j[3:])
        if j.startswith("@b:"):
            h = j[3:]
            return "".join(chr(int(h[i:i + 2], 16)) for i in range(0, len(h), 2))
        return j
    if isinstance(j, list):
        return [demark(x) for x in j]
    if isinstance(j, dict):
        return {k: demark(v) for k, v in j.items()}
    return j


def rust_type(ft):
    f = ft["f"]
    if f in SCALAR_RUST:
        return SCALAR_RUST[f]
    if f == "option":
        return f"Option<{rust_type(ft['of'])}>"
    if f == "vec":
        return f"Vec<{rust_type(ft['of'])}>"
    if f == "map":
        return f"HashMap<String, {rust_type(ft['of'])}>"
    if f == "box":
        return f"Box<{rust_type(ft['of'])}>"
    if f == "array":
        return f"[{rust_type(ft['of'])}; {ft['n']}]"
    if f == "named":
        return ft["id"]
    if f == "uuid":
        return "apache_avro::Uuid"
    if f == "stdduration":
        return "std::time::Duration"
    raise vf.ToolError(f"renderer: unknown field type {ft}")


def rstr(s):
    return json.dumps(s)


def field_attrs(fd, menu):
    out = []
    ser = []
    if fd["rename"]:
        ser.append(f"rename = {rstr(fd['rename'])}")
    for a in fd["aliases"]:
        ser.append(f"alias = {rstr(a)}")
    if fd["skip"] == "skip":
        ser.append("skip")
    elif fd["skip"] == "ser":
        ser.append("skip_serializing")
        ser.append("default")
    elif fd["skip"] == "ifnone":
        ser.append('skip_serializing_if = "Option::is_none"')
        ser.append("default")
    if fd["flatten"]:
        ser.append("flatten")
    if ser:
        out.append(f"#[serde({', '.join(ser)})]")
    av = []
    if fd["doc"]:
        av.append(f"doc = {rstr(fd['doc'])}")
    if fd["default"] == "false":
        av.append("default = false")
    elif fd["default"]:
        text = json.dumps(demark(menu[fd["default"]]["json"]))
        av.append(f"default = {rstr(text)}")
    if av:
        out.append(f"#[avro({', '.join(av)})]")
    return out


def field_ident(ws):
    return "_".join(ws)


def variant_ident(ws):
    return "".join(VOCAB_CAP(w) for w in ws)


RUST_KEYWORDS = {"type", "match", "move", "ref", "box", "next"} - {"next", "box"}


def render_def(d, menu):
    lines = ["#[derive(AvroSchema, Serialize, Deserialize)]"]
    ser, av = [], []
    if d["rename"]:
        ser.append(f"rename = {rstr(d['rename'])}")
    if d["rename_all"]:
        ser.append(f"rename_all = {rstr(d['rename_all'])}")
    if d["rename_all_fields"]:
        ser.append(f"rename_all_fields = {rstr(d['rename_all_fields'])}")
    if d["transparent"]:
        ser.append("transparent")
    if d["ns"]:
        av.append(f"namespace = {rstr(d['ns'])}")
    if d["doc"]:
        av.append(f"doc = {rstr(d['doc'])}")
    for a in d["aliases"]:
        av.append(f"alias = {rstr(a)}")
    if d["repr"]:
        av.append(f"repr = {rstr(d['repr'])}")
    if ser:
        lines.append(f"#[serde({', '.join(ser)})]")
    if av:
        lines.append(f"#[avro({', '.join(av)})]")
    k = d["kind"]
    if k == "unit":
        lines.append(f"pub struct {d['id']};")
    elif k == "tuple":
        items = []
        for fd in d["fields"]:
            items.append(" ".join(field_attrs(fd, menu) + [f"pub {rust_type(fd['ty'])}"]))
        lines.append(f"pub struct {d['id']}({', '.join(items)});")
    elif k == "struct":
        lines.append(f"pub struct {d['id']} {{")
        for fd in d["fields"]:
            for a in field_attrs(fd, menu):
                lines.append("    " + a)
            lines.append(f"    pub {field_ident(fd['ident'])}: {rust_type(fd['ty'])},")
        lines.append("}")
    elif k == "enum":
        lines.append(f"pub enum {d['id']} {{")
        for v in d["variants"]:
            ser = []
            if v["rename"]:
                ser.append(f"rename = {rstr(v['rename'])}")
            for a in v["aliases"]:
                ser.append(f"alias = {rstr(a)}")
            if v["skip"]:
                ser.append("skip")
            if v["rename_all"]:
                ser.append(f"rename_all = {rstr(v['rename_all'])}")
            if ser:
                lines.append(f"    #[serde({', '.join(ser)})]")
            name = variant_ident(v["ident"])
            if v["vk"] == "unit":
                lines.append(f"    {name},")
            elif v["vk"] in ("newtype", "tuple"):
                items = [" ".join(field_attrs(fd, menu) + [rust_type(fd["ty"])]) for fd in v["fields"]]
                lines.append(f"    {name}({', '.join(items)}),")
            else:
                lines.append(f"    {name} {{")
                for fd in v["fields"]:
                    for a in field_attrs(fd, menu):
                        lines.append("        " + a)
                    lines.append(f"        {field_ident(fd['ident'])}: {rust_type(fd['ty'])},")
                lines.append("    },")
        lines.append("}")
    else:
        raise vf.ToolError(f"renderer: unknown kind {k}")
    return lines


def render_part(scns, menu):
    """returns (text, {name: (first line, last line)})"""
    out = ["// GENERATED by bin/lib/c_derive.py from the definitions TLC emitted (spec/MC_DeriveModel.tla). Do not edit.",
           "use avro_verif_harness::c17::{Runner, run_type};", ""]
    spans = {}
    for s in scns:
        start = len(out) + 1
        out.append(f"pub mod {s['name']} {{")
        out.append("    use apache_avro::AvroSchema;")
        out.append("    use serde::{Deserialize, Serialize};")
        out.append("    use std::collections::HashMap;")
        for d in s["defs"]:
            for l in render_def(d, menu):
                out.append("    " + l)
        out.append("}")
        spans[s["name"]] = (start, len(out))
        out.append("")
    out.append("pub static REGISTRY: &[(&str, Runner)] = &[")
    for s in scns:
        out.append(f"    ({rstr(s['name'])}, run_type::<{s['name']}::{s['root']}> as Runner),")
    out.append("];")
    return "\n".join(out) + "\n", spans


def render_corpus(scns, menu, dropped=()):
    """the live scenarios are dealt round-robin onto PARTS crates; returns {part index: spans}"""
    live = [s for s in scns if s["name"] not in dropped]
    spans = {}
    for k in range(PARTS):
        text, sp = render_part([s for s in live if int(s["name"][1:], 16) % PARTS == k], menu)
        f = CORPUS / f"part{k}" / "generated.rs"
        if not f.exists() or f.read_text() != text:
            f.write_text(text)
        spans[k] = sp
    return spans


def cargo_corpus(timeout=3000):
    env = dict(os.environ, CARGO_NET_OFFLINE="true")
    t0 = time.time()
    p = subprocess.run(["cargo", "build", "--release", "--offline", "--message-format=short"], cwd=CORPUS, env=env,
                       stdout=subprocess.PIPE, stderr=subprocess.STDOUT, text=True, timeout=timeout)
    return p.returncode, p.stdout, time.time() - t0


def build_corpus(scns, menu):
    """Render + compile; definitions the macro rejects are dropped (recorded as unsupported) and the rest recompiled."""
    dropped = {}
    total = 0.0
    for _round in range(4):
        spans = render_corpus(scns, menu, dropped)
        rc, out, wall = cargo_corpus()
        total += wall
        if rc == 0:
            return dropped, total
        bad = {}
        for m in re.finditer(r"part(\d)/generated\.rs:(\d+):\d+: error(?:\[E\d+\])?: (.*)", out):
            part, line = int(m.group(1)), int(m.group(2))
            for name, (a, b) in spans[part].items():
                if a <= line <= b:
                    bad.setdefault(name, m.group(3)[:200])
        if not bad:
            raise vf.ToolError("cargo build of the generated corpus failed outside the generated definitions:\n" + out[-3000:])
        dropped.update(bad)
    raise vf.ToolError(f"generated corpus still does not compile after dropping {len(dropped)} definitions")


_T = [0.0]


def stage(name):
    import time as _t
    now = _t.time()
    if _T[0]:
        vf.log(f"{name}: +{now - _T[0]:.1f}s")
    _T[0] = now


def run(prop, tier, seed, replay=None):
    rep = vf.Report(prop, tier, seed)
    stage("start")
    vf.build_harness()
    work = vf.fresh_workdir(f"{prop}-{tier}")
    stage("harness build")
    rng = random.Random(seed)
    # the context machine: all valid graphs; a seed-chosen slice of them becomes concrete scenarios
    ctx_scns = []
    if not replay:
        cfg_src = "MC_DeriveCtx.cfg" if tier == "quick" else "MC_DeriveCtx_thorough.cfg"
        cfg = (work / "spec" / cfg_src).read_text()
        slices = int(re.search(r"Slices = (\d+)", cfg).group(1))
        cfg = re.sub(r"Pick = \d+", f"Pick = {seed % slices}", cfg)
        (work / "spec" / "MC_DeriveCtx_run.cfg").write_text(cfg)
        r = vf.tlc_mc(work, "MC_DeriveCtx.tla", "MC_DeriveCtx_run.cfg", workers=4, timeout=1500)
        if not r.ok:
            raise vf.ToolError(f"MC_DeriveCtx: invariant violated: {r.violated}")
        rep.add_states(r.distinct, r.generated)
        ctx_scns = sorted(set(r.tagged("SCN")))
        rep.cov["context_machine_states"] = r.distinct
        rep.cov["context_machine_graphs_executed"] = len(ctx_scns)
        if r.distinct < 1000:
            raise vf.ToolError("MC_DeriveCtx explored too little (vacuous run)")
    r = vf.tlc_mc(work, "MC_DeriveModel.tla", f"MC_DeriveModel_{tier}.cfg", workers=4, timeout=1500)
    if not r.ok:
        raise vf.ToolError(f"MC_DeriveModel invariant violated (the model contradicts itself): {r.violated}")
    rep.add_states(r.distinct, r.generated)
    menus = r.tagged("MENU")
    if not menus:
        raise vf.ToolError("MC_DeriveModel did not print the default menu")
    menu = json.loads(menus[0])
    raw = sorted(set(r.tagged("SCN")) | set(ctx_scns))
    if len(raw) < 150:
        raise vf.ToolError("MC_DeriveModel emitted too few scenarios (vacuous run)")
    scns = []
    for s in raw:
        j = json.loads(s)
        # a stable name: unchanged definition sets are not recompiled from run to run
        j["name"] = "s" + hashlib.sha1(json.dumps(j["defs"], sort_keys=True).encode()).hexdigest()[:10]
        scns.append(j)
    if tier == "quick" and not replay:
        # every attribute / enum / graph / shape scenario; a seeded sample of the plain field-type and nesting ones
        keep = [s for s in scns if s["grp"] not in ("G1", "G5")]
        for g, n in (("G1", 12), ("G5", 8)):
            pool = sorted((s for s in scns if s["grp"] == g), key=lambda s: s["name"])
            rng.shuffle(pool)
            keep += pool[:n]
        scns = sorted(keep, key=lambda s: s["name"])
    if replay:
        payload = json.loads(Path(replay).read_text())["payload"]
        want = json.dumps(payload["scenario"]["defs"], sort_keys=True)
        scns = [s for s in scns if json.dumps(s["defs"], sort_keys=True) == want] \
            or [dict(payload["scenario"], name="s" + hashlib.sha1(want.encode()).hexdigest()[:10])]
    import fcntl
    lockf = open(vf.WORK / ".corpus.lock", "w")
    fcntl.flock(lockf, fcntl.LOCK_EX)
    try:
        dropped, compile_wall = build_corpus(scns, menu)
        vf.log(f"corpus of {len(scns)} definition sets compiled in {compile_wall:.1f}s ({len(dropped)} rejected by the macro)")
        scn_file = work / "all.scn.ndjson"
        scn_file.write_text("\n".join(json.dumps(s) for s in scns) + "\n")
        ev_file = work / "events.ndjson"
        p = subprocess.run([str(AVH17), "derive-run", "--scn", str(scn_file), "--out", str(ev_file)],
                           stdout=subprocess.PIPE, stderr=subprocess.PIPE, text=True, timeout=1800)
        if p.returncode != 0:
            raise vf.ToolError(f"corpus binary exited {p.returncode}: {p.stderr[-2000:]}")
    finally:
        fcntl.flock(lockf, fcntl.LOCK_UN)
        lockf.close()
    stage("model checking + execution")
    events = [l for l in ev_file.read_text().splitlines() if l.strip()]
    if len(events) != len(scns):
        raise vf.ToolError(f"corpus binary recorded {len(events)} events for {len(scns)} scenarios")
    verdicts, st, tr = vf.judge_events(work, "Trace_Derive.tla", "Trace_Derive.cfg", events, chunk=25, jobs=4)
    rep.add_states(st, tr)
    stage("judging")
    evs = [json.loads(e) for e in events]
    rep.cov["traces_validated_against_impl"] = len(events)
    rep.cov["evaluations"] = sum(len(e["vals"]) for e in evs)
    rep.cov["distinct_nontrivial"] = vf.distinct_hashes([s["defs"] for s, e in zip(scns, evs) if e["supported"] and e["schema"]["ok"]])
    rep.cov["rule"] = RULE
    rep.cov["definition_sets"] = len(scns)
    rep.cov["definitions_rejected_by_the_macro"] = {k: v for k, v in list(dropped.items())[:10]}
    rep.cov["corpus_compile_wall_s"] = round(compile_wall, 1)
    rep.cov["exhaustive"] = False
    if not replay and (rep.cov["distinct_nontrivial"] < 120 or rep.cov["evaluations"] < 250):
        raise vf.ToolError(f"too little executed ({rep.cov['distinct_nontrivial']} definition sets, {rep.cov['evaluations']} values)")
    for s in scns[:2] + scns[len(scns) // 2: len(scns) // 2 + 2] + scns[-2:]:
        rep.sample({"defs": s["defs"], "root": s["root"], "values": len(s["vals"])})
    rep.assumptions += [
        "spec/DeriveModel.tla transcribes the documented derive attributes and serde's attribute semantics; that serde's own derive produces the representation the model assumes is checked per value (the recorded term is what the real type serializes as; a difference from the model's term is reported as drift)",
        "spec/AvroBinary.tla is the byte-level oracle; harness sv.rs / c17.rs (schema -> term projection, capturing serializer) are trusted to record faithfully",
        "bin/lib/c_derive.py renders definitions to Rust source; a definition the macro rejects is dropped and reported as drift",
    ]

    # binding self-test: a corrupted recording must be rejected by the trace spec
    if not replay:
        dirty = {v["id"] for v in verdicts}
        victims = [e for e in evs if e["id"] not in dirty and e["supported"] and e["schema"]["ok"]
                   and e["schema"]["term"].get("k") == "record" and e["schema"]["term"]["fields"]
                   and e["vals"] and e["vals"][0]["runs"] and e["vals"][0]["runs"][0]["de"]["ok"]][:3]
        if len(victims) == 3:
            a, b, c = (json.loads(json.dumps(x)) for x in victims)
            a["schema"]["term"]["fields"][0]["name"] += "_x"                          # the derived schema
            b["again"]["term"]["fields"] = b["again"]["term"]["fields"][1:]           # the second call
            c["vals"][0]["runs"][0]["de"]["back"] = {"c": "unit_struct", "name": "Corrupted"}   # a value read back
            for i, x in enumerate((a, b, c)):
                x["id"] = i
            st_work = work / "selftest"
            (st_work / "spec").mkdir(parents=True)
            for f in (work / "spec").iterdir():
                (st_work / "spec" / f.name).write_bytes(f.read_bytes())
            sv, _, _ = vf.judge_events(st_work, "Trace_Derive.tla", "Trace_Derive.cfg", [json.dumps(x) for x in (a, b, c)], chunk=10, jobs=1)
            rejected = {v["id"] for v in sv if any(cl.startswith("C17:") for cl in v.get("fail", []))}
            rep.cov["binding_selftest"] = {"corrupted_events": 3, "rejected": len(rejected)}
            if rejected != {0, 1, 2}:
                raise vf.ToolError(f"binding self-test: corrupted recordings were not all rejected ({sorted(rejected)})")

    def replay_of(i):
        return {"scenario": {k: scns[i][k] for k in ("defs", "root", "grp", "exp", "vals")}, "event": evs[i]}

    rep.classify(verdicts, replay_of)
    return rep.finish()
