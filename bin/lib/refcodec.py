#!/usr/bin/env python3
"""Reference codecs as instruments for C15 (sanctioned by the property's observe_at: Python zlib / bz2 / lzma).

This script never judges.  It (a) generates the seeded payload files, (b) produces foreign streams with the
reference compressors (raw deflate with wbits=-15, bzip2, xz container), and (c) runs the reference
DEcompressors over the bytes the library produced and records their reading (accepts?, length, SHA-256,
bytes) as extra event fields.  The TLA+ trace spec (spec/Trace_Codec.tla) states what those readings must be.

There is no zstandard and no snappy reference on this image: zstandard streams get `ref_avail = false`;
snappy is judged by the TLA+ transcription of the format itself.

CLI (the glue imports the functions directly):
  refcodec.py gen    --seed S --tier quick|thorough --dir DIR      -> payload table (JSON) on stdout
  refcodec.py make   --dir DIR                                     -> foreign-stream scenarios (ndjson) on stdout
  refcodec.py decomp --events F --blobs DIR --out F2               -> events with ref_* fields
"""
import bz2
import hashlib
import json
import lzma
import random
import sys
import zlib
from pathlib import Path

WORDS = ("the quick brown fox jumps over lazy dog avro schema record union bytes fixed codec deflate snappy "
         "bzip2 xz zstandard block sync marker header metadata long int string null boolean array map").split()


def sha(b):
    return hashlib.sha256(b).hexdigest()


def text(rng, n):
    out = []
    size = 0
    while size < n:
        w = rng.choice(WORDS)
        out.append(w)
        size += len(w) + 1
    return (" ".join(out)).encode()[:n]


def payloads(seed, tier):
    """-> list of (name, cls, bytes).  cls: empty | one | small | run | prng | text | edge"""
    rng = random.Random(seed * 7919 + 17)
    ps = [("empty", "empty", b""), ("one-00", "one", b"\x00"), ("one-ff", "one", b"\xff"),
          ("one-r", "one", bytes([rng.randrange(256)]))]
    lens = [2, 3, 4, 5, 15, 59, 60, 61, 64, 65, 100, 256, 257, 1000, 1024]
    if tier == "quick":
        lens = [2, 5, 60, 61, 65, 257, 1024]
    for n in lens:
        kind = rng.choice(["rand", "low", "period", "text", "runs"])
        if kind == "rand":
            b = rng.randbytes(n)
        elif kind == "low":
            alpha = [rng.randrange(256) for _ in range(rng.choice([2, 3, 4]))]
            b = bytes(rng.choice(alpha) for _ in range(n))
        elif kind == "period":
            p = rng.randbytes(rng.choice([1, 2, 3, 7]))
            b = (p * (n // len(p) + 1))[:n]
        elif kind == "runs":
            b = b""
            while len(b) < n:
                b += bytes([rng.randrange(256)]) * rng.randrange(1, 40)
            b = b[:n]
        else:
            b = text(rng, n)
        ps.append((f"small-{n}-{kind}", "small", b))
    ps.append(("text-small", "small", text(rng, 700)))
    ps.append(("run-70000", "run", bytes([rng.randrange(256)]) * 70000))         # > 32 KiB deflate window, > 64 KiB snappy block
    ps.append(("prng-100000", "prng", rng.randbytes(100000)))                    # > bzip2 level-1 block (100 k)
    ps.append(("text-20000", "text", text(rng, 20000)))
    # the most compressible input there is: deflate reaches its maximum expansion (about 1030:1) only on runs of several MiB,
    # so a cap on the output derived from the compressed size must still let this through
    ps.append(("maxrun-4m", "maxrun", bytes([rng.randrange(256)]) * (4 << 20)))
    if tier == "thorough":
        for n in (65535, 65536, 65537):                                          # stored-block / snappy-block edges
            ps.append((f"edge-{n}", "edge", rng.randbytes(n)))
        ps.append(("text-300000", "text", text(rng, 300000)))
        ps.append(("period-40000x3", "edge", rng.randbytes(40000) * 3))          # matches farther than the deflate window
    return ps


def write_payloads(seed, tier, d):
    d = Path(d)
    d.mkdir(parents=True, exist_ok=True)
    table = []
    for name, cls, b in payloads(seed, tier):
        p = d / f"{name}.bin"
        p.write_bytes(b)
        table.append({"name": name, "cls": cls, "path": str(p), "len": len(b), "sha": sha(b)})
    return table


# ---------------------------------------------------------------------------------------------
# reference compressors -> foreign streams
# ---------------------------------------------------------------------------------------------
def raw_deflate(b, level, strategy=zlib.Z_DEFAULT_STRATEGY, flush_every=0):
    c = zlib.compressobj(level, zlib.DEFLATED, -15, 9, strategy)
    if not flush_every:
        return c.compress(b) + c.flush()
    out = b""
    for i in range(0, len(b), flush_every):
        out += c.compress(b[i:i + flush_every]) + c.flush(zlib.Z_FULL_FLUSH)
    return out + c.flush()


def makers():
    return [
        ("deflate", "zlib-0-stored", lambda b: raw_deflate(b, 0)),
        ("deflate", "zlib-1", lambda b: raw_deflate(b, 1)),
        ("deflate", "zlib-9", lambda b: raw_deflate(b, 9)),
        ("deflate", "zlib-9-fixed", lambda b: raw_deflate(b, 9, zlib.Z_FIXED)),
        ("deflate", "zlib-6-huffman-only", lambda b: raw_deflate(b, 6, zlib.Z_HUFFMAN_ONLY)),
        ("deflate", "zlib-6-fullflush", lambda b: raw_deflate(b, 6, flush_every=max(1, len(b) // 3))),
        ("bzip2", "bz2-1", lambda b: bz2.compress(b, 1)),
        ("bzip2", "bz2-9", lambda b: bz2.compress(b, 9)),
        ("xz", "lzma-xz-0", lambda b: lzma.compress(b, format=lzma.FORMAT_XZ, preset=0)),
        ("xz", "lzma-xz-6", lambda b: lzma.compress(b, format=lzma.FORMAT_XZ, preset=6)),
        ("xz", "lzma-xz-9e-crc32", lambda b: lzma.compress(b, format=lzma.FORMAT_XZ, preset=9 | lzma.PRESET_EXTREME, check=lzma.CHECK_CRC32)),
        ("xz", "lzma-xz-6-nocheck", lambda b: lzma.compress(b, format=lzma.FORMAT_XZ, preset=6, check=lzma.CHECK_NONE)),
        ("xz", "lzma-xz-6-sha256", lambda b: lzma.compress(b, format=lzma.FORMAT_XZ, preset=6, check=lzma.CHECK_SHA256)),
    ]


def make_foreign(table, d, full_max=1024):
    """one scenario per (payload, maker); the stream goes to a file"""
    d = Path(d)
    d.mkdir(parents=True, exist_ok=True)
    scns = []
    for p in table:
        b = Path(p["path"]).read_bytes()
        for codec, maker, f in makers():
            if maker == "lzma-xz-9e-crc32" and p["len"] > 20000 and p["cls"] != "run":
                continue                      # preset 9e costs seconds per call; one large payload is enough
            s = f(b)
            sp = d / f"{p['name']}.{maker}"
            sp.write_bytes(s)
            scns.append({"k": "foreign", "codec": codec, "origin": "reference", "maker": maker, "stream_file": str(sp),
                         "plain_file": p["path"], "full": codec == "deflate" and p["len"] <= full_max and len(s) <= 2048,
                         "cls": p["cls"]})
    return scns


# ---------------------------------------------------------------------------------------------
# container files made without the crate: header metadata as other implementations write it
# ---------------------------------------------------------------------------------------------
def avro_long(n):
    z = (n << 1) ^ (n >> 63)
    out = bytearray()
    while True:
        if z < 0x80:
            out.append(z)
            return bytes(out)
        out.append((z & 0x7F) | 0x80)
        z >>= 7


def snappy_literal_stream(b):
    """a legal raw snappy block (literals of <= 60 bytes) + BE CRC-32 of the uncompressed data"""
    out = bytearray()
    n = len(b)
    while True:                      # preamble: base-128 varint
        if n < 0x80:
            out.append(n)
            break
        out.append((n & 0x7F) | 0x80)
        n >>= 7
    for i in range(0, len(b), 60):
        c = b[i:i + 60]
        out.append((len(c) - 1) << 2)
        out += c
    return bytes(out) + zlib.crc32(b).to_bytes(4, "big")


def container(meta, values, compress):
    sync = bytes(range(100, 116))
    hdr = b"Obj\x01" + avro_long(len(meta))
    for k, v in meta:
        hdr += avro_long(len(k)) + k + avro_long(len(v)) + v
    hdr += avro_long(0) + sync
    raw = b"".join(avro_long(len(v)) + v for v in values)
    payload = compress(raw)
    return hdr + avro_long(len(values)) + avro_long(len(payload)) + payload + sync


def make_files(d, values):
    """-> ffile scenarios: files as a foreign writer (e.g. the Java implementation) lays them out"""
    d = Path(d)
    d.mkdir(parents=True, exist_ok=True)
    schema = (b"avro.schema", b'"bytes"')
    cases = [
        ("null", "no avro.codec key", [schema], lambda r: r),
        ("null", "avro.codec = null", [schema, (b"avro.codec", b"null")], lambda r: r),
        ("deflate", "zlib raw level 6", [schema, (b"avro.codec", b"deflate")], lambda r: raw_deflate(r, 6)),
        ("deflate", "zlib raw stored", [(b"avro.codec", b"deflate"), schema], lambda r: raw_deflate(r, 0)),
        ("snappy", "literal-only block + BE CRC-32", [schema, (b"avro.codec", b"snappy")], snappy_literal_stream),
        ("bzip2", "bz2, no level key", [schema, (b"avro.codec", b"bzip2")], lambda r: bz2.compress(r, 9)),
        ("bzip2", "bz2 level 1, level key 1", [schema, (b"avro.codec", b"bzip2"), (b"avro.codec.compression_level", b"\x01")],
         lambda r: bz2.compress(r, 1)),
        ("xz", "xz, no level key", [schema, (b"avro.codec", b"xz")], lambda r: lzma.compress(r, format=lzma.FORMAT_XZ, preset=6)),
        ("xz", "xz preset 0, level key 0", [(b"avro.codec.compression_level", b"\x00"), schema, (b"avro.codec", b"xz")],
         lambda r: lzma.compress(r, format=lzma.FORMAT_XZ, preset=0)),
    ]
    scns = []
    for i, (codec, what, meta, comp) in enumerate(cases):
        f = d / f"foreign-{i}.avro"
        f.write_bytes(container(meta, values, comp))
        scns.append({"k": "ffile", "codec": codec, "what": what, "file": str(f), "values": [list(v) for v in values]})
    return scns


# ---------------------------------------------------------------------------------------------
# reference decompressors over the library's bytes
# ---------------------------------------------------------------------------------------------
def ref_decompress(codec, data):
    """-> (accepts, output).  accepts = the whole input is exactly one well-formed stream."""
    try:
        if codec == "deflate":
            d = zlib.decompressobj(-15)
            out = d.decompress(data) + d.flush()
            return (d.eof and d.unused_data == b""), out
        if codec == "bzip2":
            d = bz2.BZ2Decompressor()
            out = d.decompress(data)
            return (d.eof and d.unused_data == b""), out
        if codec == "xz":
            d = lzma.LZMADecompressor(format=lzma.FORMAT_XZ)
            out = d.decompress(data)
            return (d.eof and d.unused_data == b""), out
    except Exception:
        return False, b""
    raise ValueError(codec)


REF_CODECS = ("deflate", "bzip2", "xz")


def add_ref_fields(events, blobs):
    """events: list of dicts (rt / file events).  Adds ref_avail, ref_ok, ref_len, ref_sha, ref_out."""
    blobs = Path(blobs)
    for e in events:
        e.update({"ref_avail": False, "ref_ok": False, "ref_len": 0, "ref_sha": "", "ref_out": []})
        if e.get("ev") not in ("rt", "file") or e.get("codec") not in REF_CODECS:
            continue
        f = blobs / f"{e['id']}.comp"
        if not f.exists():
            continue
        ok, out = ref_decompress(e["codec"], f.read_bytes())
        want_bytes = e.get("full", False) or e["ev"] == "file"
        e.update({"ref_avail": True, "ref_ok": bool(ok), "ref_len": len(out), "ref_sha": sha(out),
                  "ref_out": list(out) if (ok and want_bytes) else []})
    return events


def main():
    a = sys.argv[1:]
    kv = {a[i][2:]: a[i + 1] for i in range(1, len(a) - 1, 2)}
    if a[0] == "gen":
        print(json.dumps(write_payloads(int(kv["seed"]), kv.get("tier", "quick"), kv["dir"]), indent=1))
    elif a[0] == "make":
        table = json.loads(Path(kv["table"]).read_text())
        for s in make_foreign(table, kv["dir"]):
            print(json.dumps(s))
    elif a[0] == "decomp":
        evs = [json.loads(l) for l in Path(kv["events"]).read_text().splitlines() if l.strip()]
        Path(kv["out"]).write_text("\n".join(json.dumps(e) for e in add_ref_fields(evs, kv["blobs"])) + "\n")
    else:
        print(__doc__)
        return 2
    return 0


if __name__ == "__main__":
    sys.exit(main())
