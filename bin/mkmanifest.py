#!/usr/bin/env python3
"""Regenerates MANIFEST.json and known_findings.json.
A property is claimed iff bin/lib/props/<ID>.py (the check) and bin/lib/props/<ID>.json (its
level text: keys text, note, design [, category, technique]) both exist and <ID> is not listed
in bin/lib/props/UNCLAIMED.json (id -> reason).  known/<ID>.json fragments (lists of findings)
are merged into the committed known_findings.json."""
import json
from pathlib import Path

ROOT = Path(__file__).resolve().parents[1]
PROPS = ROOT / "bin" / "lib" / "props"
TECH = "explicit TLA+ specification model-checked with TLC; executions of the real crate recorded by the harness and judged by a TLA+ trace specification (trace validation)"
NOT_YET = "check not built yet (planned, DESIGN.md §7); not claimed rather than claimed weakly"


def main():
    props = [json.loads(l)["id"] for l in (ROOT / "properties.jsonl").read_text().splitlines() if l.strip()]
    unclaimed = json.loads((PROPS / "UNCLAIMED.json").read_text()) if (PROPS / "UNCLAIMED.json").exists() else {}
    checks, na = [], []
    for p in props:
        meta, code = PROPS / f"{p}.json", PROPS / f"{p}.py"
        if meta.exists() and code.exists() and p not in unclaimed:
            c = json.loads(meta.read_text())
            checks.append({
                "property_id": p,
                "quick_cmd": f"bin/check {p} --tier quick",
                "thorough_cmd": f"bin/check {p} --tier thorough",
                "evidence_file": f"/verif/evidence/{p}.json",
                "replay_cmd_template": f"bin/check {p} --replay {{path}}",
                "engine": "tlc+avh",
                "level_claimed": {"category": c.get("category", "model_checking"), "text": c["text"], "design_ref": c.get("design", "")},
                "level_note": c["note"],
                "technique": c.get("technique", TECH),
            })
        else:
            na.append({"property_id": p, "reason": unclaimed.get(p, NOT_YET)})
    hooks_file = ROOT / "hooks_commits.json"
    hooks_commits = json.loads(hooks_file.read_text()) if hooks_file.exists() else []
    m = {
        "version": 1,
        "setup_cmd": "bin/setup",
        "hooks": {
            "guard": "verif-hooks (cargo feature on apache-avro)" if hooks_commits else "none (no source hooks are needed by the claimed checks: the public API exposes the abstract state)",
            "enable": "the harness crate depends on /repo/avro by path" + (" with feature verif-hooks" if hooks_commits else ""),
            "baseline_off_cmd": "cd /repo && cargo test --workspace --no-fail-fast --offline",
            "source_commits": hooks_commits,
            "add_only": True,
        },
        "engines": [
            {"name": "tlc+avh", "path": "/verif/bin/check", "serves_properties": [c["property_id"] for c in checks],
             "kind_free_text": "TLA+ specs in /verif/spec checked by TLC (model checking + trace validation); Rust harness /verif/harness executes the real crate and records ndjson"},
        ],
        "checks": checks,
        "not_applicable": na,
        "notes": "All verdicts are computed by TLC from the TLA+ specifications; the harness only executes and records. Exit codes: 0 ok, 1 VIOLATION, 2 tool error. C19 additionally runs tlapm on spec/SettingsProofs.tla (unbounded WriteOnce / RunnerOwnsCell); an undischarged obligation is a tool error. Genuine defects repaired in /repo are listed as fixed in known_findings.json and in DESIGN.md 8.3; seeded changes and which checks catch them: DESIGN.md 8.6 and seeded/.",
    }
    (ROOT / "MANIFEST.json").write_text(json.dumps(m, indent=1) + "\n")
    findings = []
    for f in sorted((ROOT / "known").glob("*.json")):
        findings += json.loads(f.read_text())
    (ROOT / "known_findings.json").write_text(json.dumps({"findings": findings}, indent=1) + "\n")
    print(f"claimed {len(checks)}, not claimed {len(na)}, findings {len(findings)}")


if __name__ == "__main__":
    main()
