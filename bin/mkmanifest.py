#!/usr/bin/env python3
"""Regenerates MANIFEST.json from the table below (single source of truth for what is claimed)."""
import json
from pathlib import Path

ROOT = Path(__file__).resolve().parents[1]
TECH = "explicit TLA+ specification model-checked with TLC; executions of the real crate recorded by the harness and judged by a TLA+ trace specification (trace validation)"

CLAIMED = {
    "C01": dict(
        text="TLC model-checks the datum life-cycle (MC_Datum: Encode/Append/Decode/DecodeSecond over a bounded universe of schemas x boundary values; round trip, exact consumption, truncation-is-error hold for the transcription). Every explored case plus seeded random deeper cases is executed on the real GenericDatumWriter/GenericDatumReader and each recorded execution is judged by Trace_Datum.tla (round trip bit-for-bit, decimals numerically, maps as functions; exact consumption with a sentinel; second datum of a concatenation; validate on/off give identical bytes).",
        note="Trusted: spec/AvroBinary.tla as oracle (consistency model-checked), harness term<->Value projection, serde_json. Bounded: schemas to depth 2 exhaustively by grammar, depth<=4 sampled.",
        design="§3 C01"),
    "C02": dict(
        text="spec/AvroBinary.tla is an independent implementation of the Avro binary encoding transcribed from the specification (literal spec examples are ASSUMEd). Writer direction: bytes of the real writer are parsed by the TLA+ Parse and must give the value. Reader direction: TLC computes 6 spec-legal layouts per case (multi-block, negative counts with byte sizes, reversed map entries) and the real decoder must decode each to the same value, consuming all bytes.",
        note="Trusted: the transcription of the specification text (Appendix B.1 of DESIGN.md); layouts are a finite family of partitions, not all compositions for long arrays.",
        design="§3 C02"),
}

REASONS_NOT_YET = "check not built yet in this round (planned, see DESIGN.md §7); not claimed rather than claimed weakly"


def main():
    props = [json.loads(l)["id"] for l in (ROOT / "properties.jsonl").read_text().splitlines() if l.strip()]
    checks = []
    for p in props:
        if p in CLAIMED:
            c = CLAIMED[p]
            checks.append({
                "property_id": p,
                "quick_cmd": f"bin/check {p} --tier quick",
                "thorough_cmd": f"bin/check {p} --tier thorough",
                "evidence_file": f"/verif/evidence/{p}.json",
                "replay_cmd_template": f"bin/check {p} --replay {{path}}",
                "engine": "tlc+avh",
                "level_claimed": {"category": c.get("category", "model_checking"), "text": c["text"], "design_ref": c["design"]},
                "level_note": c["note"],
                "technique": c.get("technique", TECH),
            })
    hooks_commits = json.loads((ROOT / "hooks_commits.json").read_text()) if (ROOT / "hooks_commits.json").exists() else []
    m = {
        "version": 1,
        "setup_cmd": "bin/setup",
        "hooks": {
            "guard": "verif-hooks (cargo feature on apache-avro)" if hooks_commits else "none (no source hooks are needed by the claimed checks: the public API exposes the abstract state)",
            "enable": "the harness crate depends on /repo/avro by path" + (" with feature verif-hooks" if hooks_commits else ""),
            "baseline_off_cmd": "cd /repo && cargo test --workspace --no-fail-fast --offline",
            "source_commits": hooks_commits,
            "add_only": True,
        },
        "engines": [
            {"name": "tlc+avh", "path": "/verif/bin/check", "serves_properties": sorted(CLAIMED),
             "kind_free_text": "TLA+ specs in /verif/spec checked by TLC (model checking + trace validation); Rust harness /verif/harness executes the real crate and records ndjson"},
        ],
        "checks": checks,
        "not_applicable": [{"property_id": p, "reason": REASONS_NOT_YET} for p in props if p not in CLAIMED],
        "notes": "All verdicts are computed by TLC from the TLA+ specifications; the harness only executes and records. Exit codes: 0 ok, 1 VIOLATION, 2 tool error.",
    }
    (ROOT / "MANIFEST.json").write_text(json.dumps(m, indent=1) + "\n")


if __name__ == "__main__":
    main()
